use numbat::verif_api::*;
unsafe extern "C" { fn verif_f64(id: u32) -> f64; fn verif_assert(c: bool); }
fn meter() -> Unit { Unit::new_base("meter".into(), CanonicalName::new("m", AcceptsPrefix::only_short())) }
fn inch() -> Unit { Unit::new_derived("inch".into(), CanonicalName::new("in", AcceptsPrefix::none()), Number::from_f64(0.0254), meter()) }
#[unsafe(no_mangle)]
pub extern "C" fn harness_add_comm() {
    let a = unsafe { verif_f64(0) }; let b = unsafe { verif_f64(1) };
    let qa = Quantity::new_f64(a, meter().with_prefix(Prefix::Metric(-2)));
    let qb = Quantity::new_f64(b, inch());
    let s1 = (&qa + &qb).unwrap(); let s2 = (&qb + &qa).unwrap();
    unsafe { verif_assert(s1.unsafe_value().to_f64().to_bits() == s2.unsafe_value().to_f64().to_bits()); }
}
#[unsafe(no_mangle)]
pub extern "C" fn harness_cmp_sym() {
    use numbat::{Context, module_importer::BuiltinModuleImporter, resolver::CodeSource, InterpreterResult, value::Value};
    let mut ctx = Context::new(BuiltinModuleImporter::default());
    let r = ctx.interpret("use units::si\nuse units::imperial\nfn __verif_sym(i: Scalar) -> Scalar", CodeSource::Internal);
    unsafe { verif_assert(r.is_ok()); }
    let r1 = ctx.interpret("__verif_sym(0) inch == __verif_sym(1) cm", CodeSource::Internal);
    let r2 = ctx.interpret("__verif_sym(1) cm == __verif_sym(0) inch", CodeSource::Internal);
    let b1 = match r1 { Ok((_, InterpreterResult::Value(Value::Boolean(b)))) => b, _ => { unsafe { verif_assert(false); } false } };
    let b2 = match r2 { Ok((_, InterpreterResult::Value(Value::Boolean(b)))) => b, _ => { unsafe { verif_assert(false); } false } };
    unsafe { verif_assert(b1 == b2); }
}
fn main() { harness_cmp_sym(); harness_add_comm(); harness_pipeline(); }

#[unsafe(no_mangle)]
pub extern "C" fn harness_pipeline() {
    use numbat::{Context, module_importer::BuiltinModuleImporter, resolver::CodeSource};
    let mut ctx = Context::new(BuiltinModuleImporter::default());
    let r = ctx.interpret("use units::si\n2 m + 3 cm", CodeSource::Internal);
    unsafe { verif_assert(r.is_ok()); }
}
