use crate::list::NumbatList;

// P1: factorial order truncation
#[kani::proof]
fn p_order_trunc() {
    let order: usize = kani::any();
    kani::assume(order >= 1);
    let nz = std::num::NonZeroUsize::new(order).unwrap();
    let o16 = nz.get() as u16;
    assert!(o16 >= 1);
}

// P2: list: build small list, clone, ops
#[kani::proof]
#[kani::unwind(6)]
fn p_list_basic() {
    let mut l: NumbatList<u8> = NumbatList::new();
    let a: u8 = kani::any();
    let b: u8 = kani::any();
    l.push_back(a);
    l.push_back(b);
    let mut l2 = l.clone();
    l2.tail().unwrap();
    let c: u8 = kani::any();
    l2.push_front(c);
    // l must be unchanged
    let v: Vec<u8> = l.iter().cloned().collect();
    assert!(v.len() == 2 && v[0] == a && v[1] == b);
    let v2: Vec<u8> = l2.iter().cloned().collect();
    assert!(v2.len() == 2 && v2[0] == c && v2[1] == b);
}

#[kani::proof]
#[kani::unwind(4)]
fn p_list_a() {
    let mut l: NumbatList<u8> = NumbatList::with_capacity(4);
    let a: u8 = kani::any();
    let b: u8 = kani::any();
    l.push_back(a);
    l.push_back(b);
    assert!(l.len() == 2);
    let mut it = l.iter();
    assert!(it.next() == Some(&a));
    assert!(it.next() == Some(&b));
    assert!(it.next().is_none());
    drop(it);
    std::mem::forget(l);
}

#[kani::proof]
#[kani::unwind(4)]
fn p_list_b() {
    let mut l: NumbatList<u8> = NumbatList::with_capacity(4);
    let a: u8 = kani::any();
    let b: u8 = kani::any();
    l.push_back(a);
    l.push_back(b);
    let mut l2 = l.clone();
    l2.tail().unwrap();
    let c: u8 = kani::any();
    l2.push_front(c);
    assert!(l.len() == 2);
    assert!(l2.len() == 2);
    let mut it = l.iter();
    assert!(it.next() == Some(&a));
    assert!(it.next() == Some(&b));
    let mut it2 = l2.iter();
    assert!(it2.next() == Some(&c));
    assert!(it2.next() == Some(&b));
    drop(it); drop(it2);
    std::mem::forget(l);
    std::mem::forget(l2);
}

use crate::quantity::Quantity;
use crate::unit::{Unit, CanonicalName};
use crate::prefix::Prefix;
use crate::prefix_parser::AcceptsPrefix;
use crate::number::Number;
use compact_str::CompactString;

fn meter() -> Unit {
    Unit::new_base(CompactString::const_new("meter"), CanonicalName::new("m", AcceptsPrefix::only_short()))
}
fn inch() -> Unit {
    Unit::new_derived(CompactString::const_new("inch"), CanonicalName::new("in", AcceptsPrefix::none()), Number::from_f64(0.0254), meter())
}

#[kani::proof]
#[kani::unwind(8)]
fn p_q_powi() {
    let f = Prefix::Metric(-2).factor().to_f64();
    assert!(f == 0.01);
}

#[kani::proof]
#[kani::unwind(8)]
fn p_q_add_comm() {
    let a: f64 = kani::any();
    let b: f64 = kani::any();
    kani::assume(a.is_finite() && b.is_finite());
    let qa = Quantity::new_f64(a, meter());
    let qb = Quantity::new_f64(b, inch());
    let s1 = (&qa + &qb).unwrap();
    let s2 = (&qb + &qa).unwrap();
    assert!(s1.unsafe_value().to_f64().to_bits() == s2.unsafe_value().to_f64().to_bits());
}

use crate::vm::{Vm, Op, Constant, ExecutionContext};
use crate::span::Span;
use crate::interpreter::InterpreterResult;
use crate::value::Value;
use std::collections::HashMap;

#[kani::proof]
#[kani::unwind(10)]
fn p_vm_lt() {
    let a: f64 = kani::any();
    let b: f64 = kani::any();
    let mut vm = Vm::new();
    vm.add_constant(Constant::Scalar(a));
    vm.add_constant(Constant::Scalar(b));
    vm.add_op1(Op::LoadConstant, 0, SP);
    vm.add_op1(Op::LoadConstant, 1, SP);
    vm.add_op(Op::LessThan, SP);
    vm.add_op(Op::Return, SP);
    let mut pf = |_: &crate::markup::Markup| {};
    let m = HashMap::new();
    let pt = crate::prefix_transformer::Transformer::new();
    let tc = crate::typechecker::TypeChecker::default();
    let mut ctx = ExecutionContext { print_fn: &mut pf, unit_name_to_constant_idx: &m, prefix_transformer: &pt, typechecker: &tc };
    let r = vm.run(&mut ctx);
    match r {
        Ok(InterpreterResult::Value(Value::Boolean(x))) => assert!(x == (a < b)),
        _ => assert!(false),
    }
}

#[kani::proof]
#[kani::unwind(176)]
fn p_factorial_term() {
    let x: f64 = kani::any();
    let order: u16 = kani::any();
    kani::assume(x >= 0.0 && x.is_finite());
    kani::assume(order >= 1);
    let r = crate::math::factorial(x, order);
    assert!(r >= 1.0);
}

#[kani::proof]
#[kani::unwind(24)]
fn p_int_print() {
    let n: i64 = kani::any();
    kani::assume(n > -1_000_000 && n < 1_000_000);
    let s = Number::from_f64(n as f64).pretty_print();
    // parse back
    let mut v: i64 = 0;
    let mut neg = false;
    for c in s.bytes() {
        if c == b'-' { neg = true; }
        else if c == b'_' { }
        else { assert!(c >= b'0' && c <= b'9'); v = v * 10 + (c - b'0') as i64; }
    }
    if neg { v = -v; }
    assert!(v == n);
}
const SP: Span = Span { start: crate::span::ByteIndex(0), end: crate::span::ByteIndex(0), code_source_id: 0 };

#[kani::proof]
#[kani::unwind(12)]
fn p_tok_noident() {
    let b: [u8; 3] = kani::any();
    let len: usize = kani::any();
    kani::assume(len <= 3);
    for i in 0..3 {
        let c = b[i];
        // printable ascii w/o letters, '_', '%', '$' (identifier start) -> no keyword HashMap
        kani::assume(c >= 0x20 && c < 0x7f);
        kani::assume(!(c.is_ascii_alphabetic() || c == b'_' || c == b'%' || c == b'$'));
    }
    let s = std::str::from_utf8(&b[..len]).unwrap();
    let r = crate::tokenizer::tokenize(s, 0);
    if let Ok(toks) = &r {
        assert!(toks.len() >= 1 && toks.len() <= len + 1);
    }
    std::mem::forget(r);
}

#[kani::proof]
#[kani::unwind(6)]
fn p_dtype_mul() {
    use crate::typed_ast::DType;
    use crate::arithmetic::Exponent;
    let n1: i128 = kani::any();
    let n2: i128 = kani::any();
    let a = DType::base_dimension("L").try_power(Exponent::from_integer(n1));
    let b = DType::base_dimension("L").try_power(Exponent::from_integer(n2));
    if let (Some(a), Some(b)) = (a, b) {
        let c = a.try_multiply(&b);
        if let Some(c) = &c {
            if n1.checked_add(n2).map(|s| s != 0).unwrap_or(false) {
                assert!(c.factors().len() == 1 && *c.factors()[0].1.numer() == n1 + n2);
            }
        }
        std::mem::forget(c);
        std::mem::forget(a); std::mem::forget(b);
    }
}
