import z3, time
F=z3.Float64(); R=z3.RNE()
a=z3.FP('a',F); b=z3.FP('b',F)
f=z3.FPVal(0.0254,F); g=z3.FPVal(0.01,F)
def run(name, cs, to=60000):
    s=z3.Solver(); s.set('timeout',to); s.add(*cs); t=time.time(); r=s.check(); print(name, r, '%.1fs'%(time.time()-t), s.model() if r==z3.sat else '')
fin=lambda x: z3.And(z3.Not(z3.fpIsNaN(x)), z3.Not(z3.fpIsInf(x)), z3.Not(z3.fpIsZero(x)))
# Q1: asymmetry of ==   (a inch == b cm)  vs reversed
lhs = z3.fpEQ(a, z3.fpDiv(R, z3.fpMul(R,b,g), f))
rhs = z3.fpEQ(b, z3.fpDiv(R, z3.fpMul(R,a,f), g))
run('Q1 asym', [fin(a),fin(b), lhs != rhs])
# Q2: tolerance: |(a*f)/g - a*(f/g)| <= 4ulp-ish relative 1e-15, a in normal range [1e-100,1e100]
x=z3.fpDiv(R,z3.fpMul(R,a,f),g); y=z3.fpMul(R,a,z3.fpDiv(R,f,g))
rng=z3.And(z3.fpGEQ(a,z3.FPVal(1e-100,F)), z3.fpLEQ(a,z3.FPVal(1e100,F)))
d=z3.fpAbs(z3.fpSub(R,x,y)); tol=z3.fpMul(R,z3.FPVal(1e-15,F),z3.fpAbs(y))
run('Q2 tol', [rng, z3.fpGT(d,tol)], 120000)
# Q3: add/sub tolerance: (a+273.15)-273.15 vs a, |a|<=1e6
c=z3.FPVal(273.15,F)
z=z3.fpSub(R,z3.fpAdd(R,a,c),c)
rng3=z3.And(z3.fpGEQ(a,z3.FPVal(-1e6,F)), z3.fpLEQ(a,z3.FPVal(1e6,F)))
run('Q3 addsub', [rng3, z3.fpGT(z3.fpAbs(z3.fpSub(R,z,a)), z3.FPVal(1e-9,F))], 120000)
