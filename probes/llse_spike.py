#!/usr/bin/env python3
"""LLSE spike: a small LLVM-IR (text) symbolic executor. Concrete heap, symbolic scalars (z3)."""
import re, sys, struct, math, time, bisect, ctypes
import z3

sys.setrecursionlimit(100000)

# ----------------------------------------------------------------------------- tokenizer
TOK = re.compile(r'''
   (?P<ws>\s+)
 | (?P<cstr>c"(?:[^"\\]|\\[0-9A-Fa-f]{2}|\\\\)*")
 | (?P<gid>@(?:"[^"]*"|[\w.$\-]+))
 | (?P<lid>%(?:"[^"]*"|[\w.$\-]+))
 | (?P<meta>![\w.\-]*(?:\([^)]*\))?)
 | (?P<attr>\#\d+)
 | (?P<hexf>0x[KLMHR]?[0-9A-Fa-f]+)
 | (?P<num>-?\d+\.\d*(?:[eE][+-]?\d+)?|-?\d+)
 | (?P<str>"[^"]*")
 | (?P<word>[A-Za-z_][\w.]*)
 | (?P<dots>\.\.\.)
 | (?P<p>[()\[\]{}<>,=*:])
''', re.X)

def tokenize(s):
    out = []
    pos = 0
    n = len(s)
    while pos < n:
        if s[pos] == ';':
            break
        m = TOK.match(s, pos)
        if not m:
            raise SyntaxError('lex error at %r' % s[pos:pos+40])
        pos = m.end()
        k = m.lastgroup
        if k == 'ws':
            continue
        out.append((k, m.group()))
    return out

# ----------------------------------------------------------------------------- types
class T:
    __slots__ = ('k', 'bits', 'n', 'el', 'fields', 'packed', 'name', '_size', '_align', '_offs')
    def __init__(s, k, **kw):
        s.k = k; s.bits = kw.get('bits'); s.n = kw.get('n'); s.el = kw.get('el')
        s.fields = kw.get('fields'); s.packed = kw.get('packed', False); s.name = kw.get('name')
        s._size = None; s._align = None; s._offs = None
    def __repr__(s):
        if s.k == 'int': return 'i%d' % s.bits
        if s.k in ('ptr', 'double', 'float', 'void', 'label', 'metadata', 'half', 'token'): return s.k
        if s.k == 'array': return '[%d x %r]' % (s.n, s.el)
        if s.k == 'vector': return '<%d x %r>' % (s.n, s.el)
        if s.k == 'struct': return '{%s}' % ', '.join(map(repr, s.fields))
        if s.k == 'named': return s.name
        return s.k

PTR = T('ptr'); DOUBLE = T('double'); FLOAT = T('float'); VOID = T('void'); LABEL = T('label'); META = T('metadata')
_ints = {}
def INT(b):
    t = _ints.get(b)
    if t is None:
        t = _ints[b] = T('int', bits=b)
    return t
I1 = INT(1); I8 = INT(8); I32 = INT(32); I64 = INT(64)

class Module:
    pass

class TypeCtx:
    def __init__(s):
        s.named = {}
    def resolve(s, t):
        while t.k == 'named':
            t = s.named[t.name]
        return t
    def size(s, t):
        t = s.resolve(t)
        if t._size is None: s._layout(t)
        return t._size
    def align(s, t):
        t = s.resolve(t)
        if t._align is None: s._layout(t)
        return t._align
    def offsets(s, t):
        t = s.resolve(t)
        if t._size is None: s._layout(t)
        return t._offs
    def _layout(s, t):
        k = t.k
        if k == 'int':
            b = t.bits
            sz = (b + 7) // 8
            if sz <= 1: t._size, t._align = 1, 1
            elif sz <= 2: t._size, t._align = 2, 2
            elif sz <= 4: t._size, t._align = 4, 4
            elif sz <= 8: t._size, t._align = 8, 8
            else: t._size, t._align = ((sz + 15) // 16) * 16, 16
        elif k == 'ptr': t._size, t._align = 8, 8
        elif k == 'double': t._size, t._align = 8, 8
        elif k == 'float': t._size, t._align = 4, 4
        elif k == 'half': t._size, t._align = 2, 2
        elif k == 'array':
            es = s.size(t.el); t._size = es * t.n; t._align = s.align(t.el)
        elif k == 'vector':
            es = s.size(t.el)
            if s.resolve(t.el).k == 'int' and s.resolve(t.el).bits == 1:
                t._size = (t.n + 7) // 8
            else:
                t._size = es * t.n
            a = 1
            while a < t._size: a *= 2
            t._align = a
        elif k == 'struct':
            off = 0; al = 1; offs = []
            for f in t.fields:
                fa = 1 if t.packed else s.align(f)
                off = (off + fa - 1) // fa * fa
                offs.append(off)
                off += s.size(f)
                al = max(al, fa)
            t._offs = offs
            t._size = (off + al - 1) // al * al
            t._align = al
        else:
            raise NotImplementedError('layout of %r' % t)

class P:
    """token stream parser"""
    def __init__(s, toks, tc):
        s.t = toks; s.i = 0; s.tc = tc
    def peek(s, o=0):
        j = s.i + o
        return s.t[j] if j < len(s.t) else ('eof', '')
    def next(s):
        x = s.t[s.i]; s.i += 1; return x
    def accept(s, v):
        if s.i < len(s.t) and s.t[s.i][1] == v:
            s.i += 1; return True
        return False
    def expect(s, v):
        x = s.next()
        if x[1] != v: raise SyntaxError('expected %r got %r (at %d in %r)' % (v, x, s.i, ' '.join(t[1] for t in s.t[:60])))
    def at_end(s): return s.i >= len(s.t)

    def type(s):
        k, v = s.next()
        if k == 'word':
            if v[0] == 'i' and v[1:].isdigit(): t = INT(int(v[1:]))
            elif v == 'ptr': t = PTR
            elif v == 'double': t = DOUBLE
            elif v == 'float': t = FLOAT
            elif v == 'void': t = VOID
            elif v == 'label': t = LABEL
            elif v == 'metadata': t = META
            elif v == 'half': t = T('half')
            elif v == 'token': t = T('token')
            elif v == 'opaque': t = T('struct', fields=[])
            else: raise SyntaxError('type? %r' % v)
        elif k == 'lid':
            t = T('named', name=v)
        elif v == '[':
            n = int(s.next()[1]); s.expect('x'); el = s.type(); s.expect(']')
            t = T('array', n=n, el=el)
        elif v == '{':
            fs = []
            if not s.accept('}'):
                while True:
                    fs.append(s.type())
                    if s.accept('}'): break
                    s.expect(',')
            t = T('struct', fields=fs)
        elif v == '<':
            if s.accept('{'):
                fs = []
                if not s.accept('}'):
                    while True:
                        fs.append(s.type())
                        if s.accept('}'): break
                        s.expect(',')
                s.expect('>')
                t = T('struct', fields=fs, packed=True)
            else:
                n = int(s.next()[1]); s.expect('x'); el = s.type(); s.expect('>')
                t = T('vector', n=n, el=el)
        else:
            raise SyntaxError('type? %r %r' % (k, v))
        # function type suffix: T (args)
        if s.peek()[1] == '(' and t.k != 'named_nofn':
            # only in call fnty position; parse and wrap
            save = s.i
            try:
                s.next()
                while not s.accept(')'):
                    if s.accept('...'): continue
                    s.type(); s.accept(',')
                t = T('fn', el=t)
            except SyntaxError:
                s.i = save
        while s.accept('*'):
            t = PTR
        return t

PARAM_ATTRS = {'noundef', 'nonnull', 'noalias', 'readonly', 'readnone', 'writeonly', 'nocapture', 'signext', 'zeroext',
               'inreg', 'returned', 'nofree', 'immarg', 'nest', 'swiftself', 'swifterror', 'dead_on_unwind', 'writable',
               'initializes', 'range', 'nofpclass', 'dead_on_return', 'allocalign', 'allocptr', 'noext', 'inrange', 'nocapture'}
PAREN_ATTRS = {'align', 'dereferenceable', 'dereferenceable_or_null', 'sret', 'byval', 'captures', 'initializes', 'range',
               'nofpclass', 'byref', 'inalloca', 'preallocated', 'elementtype', 'memory'}

def skip_param_attrs(p):
    while True:
        k, v = p.peek()
        if k != 'word': return
        if v == 'align':
            p.next()
            if p.peek()[1] == '(':
                skip_parens(p)
            else:
                p.next()
            continue
        if v in PAREN_ATTRS:
            p.next()
            if p.peek()[1] == '(':
                skip_parens(p)
            continue
        if v in PARAM_ATTRS:
            p.next(); continue
        return

def skip_parens(p):
    p.expect('(')
    d = 1
    while d:
        v = p.next()[1]
        if v == '(': d += 1
        elif v == ')': d -= 1

# ----------------------------------------------------------------------------- constants / operands
# operand encodings: ('c', value) constant python value; ('l', idx) local register; ('g', name) global address; ('ce', fn) const-expr thunk
class Undef:
    def __repr__(s): return 'undef'
UNDEF = Undef()

def parse_float_lit(k, v, t):
    if k == 'hexf':
        if v[2] in 'KLMHR':
            raise NotImplementedError('fp80 etc')
        bits = int(v, 16)
        d = struct.unpack('<d', struct.pack('<Q', bits))[0]
        return d
    return float(v)

class FnParser:
    """parses operands within a function, mapping local names to register indexes"""
    def __init__(s, mod, regmap):
        s.mod = mod; s.regmap = regmap; s.tc = mod.tc

    def reg(s, name):
        r = s.regmap.get(name)
        if r is None:
            r = s.regmap[name] = len(s.regmap)
        return r

    def value(s, p, t):
        """parse a value of type t; returns operand"""
        tc = s.tc
        rt = tc.resolve(t)
        k, v = p.next()
        if k == 'lid': return ('l', s.reg(v))
        if k == 'gid': return ('g', v)
        if k == 'num' or k == 'hexf':
            if rt.k == 'int':
                return ('c', int(v) & ((1 << rt.bits) - 1))
            if rt.k in ('double', 'float'):
                return ('c', parse_float_lit(k, v, rt))
            raise SyntaxError('num for type %r' % rt)
        if k == 'word':
            if v == 'true': return ('c', 1)
            if v == 'false': return ('c', 0)
            if v == 'null': return ('c', 0)
            if v in ('undef', 'poison'): return ('c', s.zero(rt))
            if v == 'zeroinitializer': return ('c', s.zero(rt))
            if v == 'splat':
                p.expect('('); et = p.type(); e = s.value(p, et); p.expect(')')
                return ('agg', [e] * rt.n)
            if v in ('getelementptr', 'inttoptr', 'ptrtoint', 'bitcast', 'add', 'sub', 'trunc', 'addrspacecast', 'xor', 'and', 'or', 'shl', 'mul'):
                return s.constexpr(v, p)
            raise SyntaxError('value word %r' % v)
        if k == 'cstr':
            return ('c', list(decode_cstr(v)))
        if v == '{' or v == '[' or v == '<':
            close = {'{': '}', '[': ']', '<': '>'}[v]
            packed = False
            if v == '<' and p.peek()[1] == '{':
                p.next(); packed = True; close = '}'
            elems = []
            if not p.accept(close):
                while True:
                    et = p.type(); elems.append(s.value(p, et))
                    if p.accept(close): break
                    p.expect(',')
            if packed: p.expect('>')
            return ('agg', elems)
        raise SyntaxError('value? %r %r' % (k, v))

    def zero(s, rt):
        rt = s.tc.resolve(rt)
        if rt.k in ('int', 'ptr'): return 0
        if rt.k in ('double', 'float'): return 0.0
        if rt.k == 'array' or rt.k == 'vector': return [s.zero(rt.el) for _ in range(rt.n)]
        if rt.k == 'struct': return [s.zero(f) for f in rt.fields]
        raise NotImplementedError('zero %r' % rt)

    def constexpr(s, op, p):
        if op == 'getelementptr':
            while p.peek()[1] in ('inbounds', 'nuw', 'nusw', 'inrange'):
                if p.next()[1] == 'inrange': skip_parens(p)
            p.expect('(')
            bt = p.type(); p.expect(',')
            pt = p.type(); base = s.value(p, pt)
            idx = []
            while p.accept(','):
                it = p.type(); idx.append(s.value(p, it))
            p.expect(')')
            return ('gep', bt, base, idx)
        if op in ('inttoptr', 'ptrtoint', 'bitcast', 'trunc', 'addrspacecast'):
            p.expect('('); ft = p.type(); v = s.value(p, ft); p.expect('to'); tt = p.type(); p.expect(')')
            return ('cast', op, ft, v, tt)
        # binary const expr
        while p.peek()[1] in ('nuw', 'nsw'): p.next()
        p.expect('('); t1 = p.type(); a = s.value(p, t1); p.expect(','); t2 = p.type(); b = s.value(p, t2); p.expect(')')
        return ('bin', op, t1, a, b)

def decode_cstr(v):
    b = bytearray(); s = v[2:-1]; i = 0
    while i < len(s):
        c = s[i]
        if c == '\\':
            if s[i+1] == '\\': b.append(92); i += 2
            else: b.append(int(s[i+1:i+3], 16)); i += 3
        else:
            b.extend(c.encode('utf-8')); i += 1
    return bytes(b)

# ----------------------------------------------------------------------------- module loading
class Function:
    __slots__ = ('name', 'start', 'end', 'params', 'ret', 'blocks', 'nregs', 'parsed', 'header', 'code', 'labels', 'vararg')

def load_module(path):
    mod = Module(); mod.tc = TypeCtx(); mod.funcs = {}; mod.globals_src = {}; mod.declares = set(); mod.aliases = {}
    with open(path) as f:
        lines = f.read().split('\n')
    mod.lines = lines
    i = 0; n = len(lines)
    while i < n:
        ln = lines[i]
        if ln.startswith('define'):
            j = i + 1
            while lines[j] != '}': j += 1
            m = re.search(r'(@(?:"[^"]*"|[\w.$\-]+))\s*\(', ln)
            fn = Function(); fn.name = m.group(1); fn.start = i; fn.end = j; fn.parsed = False
            mod.funcs[fn.name] = fn
            i = j + 1; continue
        if ln.startswith('declare'):
            m = re.search(r'(@(?:"[^"]*"|[\w.$\-]+))\s*\(', ln)
            mod.declares.add(m.group(1))
        elif ln.startswith('%'):
            toks = tokenize(ln); p = P(toks, mod.tc)
            name = p.next()[1]; p.expect('='); p.expect('type')
            mod.tc.named[name] = p.type()
        elif ln.startswith('@'):
            m = re.match(r'(@(?:"[^"]*"|[\w.$\-]+))\s*=', ln)
            mod.globals_src[m.group(1)] = ln
        i += 1
    return mod

GLOBAL_KW = {'private', 'internal', 'external', 'weak', 'linkonce_odr', 'weak_odr', 'linkonce', 'common', 'available_externally',
             'appending', 'extern_weak', 'unnamed_addr', 'local_unnamed_addr', 'dso_local', 'dso_preemptable', 'hidden', 'protected',
             'default', 'thread_local', 'externally_initialized', 'addrspace', 'initialexec', 'localdynamic', 'localexec'}

# ----------------------------------------------------------------------------- memory
class Obj:
    __slots__ = ('base', 'size', 'data', 'sym', 'live', 'kind', 'ptrs')

class Memory:
    def __init__(s):
        s.bases = []; s.objs = []; s.next = 0x10000
        s.heap_next = 0x10000000
    def alloc(s, size, align=16, kind='heap'):
        a = max(align, 1)
        s.next = (s.next + a - 1) // a * a
        o = Obj(); o.base = s.next; o.size = size; o.data = bytearray(size); o.sym = None; o.live = True; o.kind = kind
        s.next += max(size, 1) + 16
        s.bases.append(o.base); s.objs.append(o)
        return o
    def find(s, addr):
        i = bisect.bisect_right(s.bases, addr) - 1
        if i < 0: raise MemError('bad pointer 0x%x' % addr)
        o = s.objs[i]
        if addr > o.base + o.size: raise MemError('pointer 0x%x past object 0x%x+%d' % (addr, o.base, o.size))
        return o

class MemError(Exception): pass
class Panic(Exception): pass
class Unsupported(Exception): pass
class PathEnd(Exception): pass

# ----------------------------------------------------------------------------- symbolic helpers
RNE = z3.RNE()
F64 = z3.Float64()
def is_sym(v): return isinstance(v, z3.ExprRef)
def fp_const(x):
    return z3.FPVal(x, F64)
def to_fp(v):
    return v if is_sym(v) else fp_const(v)
def to_bv(v, bits):
    return v if is_sym(v) else z3.BitVecVal(v, bits)

def f64_bits(x): return struct.unpack('<Q', struct.pack('<d', x))[0]
def bits_f64(b): return struct.unpack('<d', struct.pack('<Q', b & 0xFFFFFFFFFFFFFFFF))[0]
def f32_bits(x): return struct.unpack('<I', struct.pack('<f', x))[0]
def bits_f32(b): return struct.unpack('<f', struct.pack('<I', b & 0xFFFFFFFF))[0]
def sx(v, bits):
    return v - (1 << bits) if v >> (bits - 1) else v

libm = ctypes.CDLL('libm.so.6')
libm.pow.restype = ctypes.c_double; libm.pow.argtypes = [ctypes.c_double, ctypes.c_double]

# ----------------------------------------------------------------------------- executor
class Frame:
    __slots__ = ('fn', 'regs', 'allocas')

class Exec:
    def __init__(s, mod):
        s.mod = mod; s.tc = mod.tc; s.mem = Memory()
        s.gaddr = {}; s.faddr = {}; s.addr2fn = {}
        s.ninstr = 0
        s.path = []          # path condition (z3 bools)
        s.decisions = []     # forced decisions for replay
        s.dpos = 0
        s.nsym = 0
        s.symvars = {}
        s.solver_time = 0.0; s.queries = 0
        s.trace = False
        s.depth = 0
        s.layout_globals()

    # ---- globals
    def layout_globals(s):
        mod = s.mod
        fa = 0x7000000000
        for name in list(mod.funcs) + sorted(mod.declares):
            s.faddr[name] = fa; s.addr2fn[fa] = name; fa += 16
        s.gparsed = {}
        pend = []
        for name, ln in mod.globals_src.items():
            toks = tokenize(ln); p = P(toks, s.tc)
            p.next(); p.expect('=')
            while p.peek()[0] == 'word' and p.peek()[1] in GLOBAL_KW:
                w = p.next()[1]
                if w in ('thread_local', 'addrspace') and p.peek()[1] == '(':
                    skip_parens(p)
            kw = p.next()[1]
            if kw == 'alias':
                p.type(); p.expect(','); p.type(); tgt = p.next()[1]
                mod.aliases[name] = tgt; continue
            assert kw in ('global', 'constant'), kw
            t = p.type()
            init = None
            if not p.at_end() and p.peek()[1] != ',':
                fp = FnParser(mod, {})
                init = fp.value(p, t)
            al = 16
            while p.accept(','):
                if p.accept('align'): al = int(p.next()[1])
                else:
                    while not p.at_end() and p.peek()[1] != ',': p.next()
            o = s.mem.alloc(s.tc.size(t), al, 'global')
            s.gaddr[name] = o.base
            pend.append((o, t, init))
        for a, tgt in mod.aliases.items():
            if tgt in s.gaddr: s.gaddr[a] = s.gaddr[tgt]
            elif tgt in s.faddr: s.faddr[a] = s.faddr[tgt]
        for o, t, init in pend:
            if init is not None:
                v = s.const_eval(init, t)
                s.store(o.base, t, v)

    def const_eval(s, op, t):
        k = op[0]
        if k == 'c': return op[1]
        if k == 'g': return s.global_addr(op[1])
        if k == 'agg':
            rt = s.tc.resolve(t)
            if rt.k == 'struct': return [s.const_eval(e, ft) for e, ft in zip(op[1], rt.fields)]
            return [s.const_eval(e, rt.el) for e in op[1]]
        if k == 'gep':
            _, bt, base, idx = op
            b = s.const_eval(base, PTR)
            return s.gep(bt, b, [s.const_eval(i, I64) for i in idx], [I64] * len(idx))
        if k == 'cast':
            _, cop, ft, v, tt = op
            x = s.const_eval(v, ft)
            return s.cast(cop, ft, x, tt)
        if k == 'bin':
            _, bop, t1, a, b = op
            return s.binop(bop, s.tc.resolve(t1), s.const_eval(a, t1), s.const_eval(b, t1))
        raise NotImplementedError(op)

    def global_addr(s, name):
        a = s.gaddr.get(name)
        if a is not None: return a
        a = s.faddr.get(name)
        if a is not None: return a
        # external global, allocate zeroed
        o = s.mem.alloc(64, 16, 'extglobal'); s.gaddr[name] = o.base
        return o.base

    # ---- memory access
    def load(s, addr, t):
        if is_sym(addr): raise Unsupported('symbolic address (load)')
        rt = s.tc.resolve(t); k = rt.k
        if k == 'int':
            sz = s.tc.size(rt)
            v = s.load_bytes(addr, sz)
            if is_sym(v):
                if rt.bits < sz * 8: v = z3.Extract(rt.bits - 1, 0, v)
                return z3.simplify(v)
            return v & ((1 << rt.bits) - 1)
        if k == 'ptr':
            v = s.load_bytes(addr, 8)
            return v
        if k == 'double':
            v = s.load_bytes(addr, 8)
            if is_sym(v):
                return z3.simplify(z3.fpBVToFP(v, F64))
            return bits_f64(v)
        if k == 'float':
            v = s.load_bytes(addr, 4)
            if is_sym(v): raise Unsupported('sym f32')
            return bits_f32(v)
        if k == 'array':
            es = s.tc.size(rt.el)
            return [s.load(addr + i * es, rt.el) for i in range(rt.n)]
        if k == 'vector':
            if s.tc.resolve(rt.el).k == 'int' and s.tc.resolve(rt.el).bits == 1:
                v = s.load_bytes(addr, (rt.n + 7) // 8)
                return [(v >> i) & 1 for i in range(rt.n)]
            es = s.tc.size(rt.el)
            return [s.load(addr + i * es, rt.el) for i in range(rt.n)]
        if k == 'struct':
            offs = s.tc.offsets(rt)
            return [s.load(addr + o, f) for o, f in zip(offs, rt.fields)]
        raise NotImplementedError('load %r' % rt)

    def load_bytes(s, addr, sz):
        o = s.mem.find(addr)
        off = addr - o.base
        if off + sz > o.size: raise MemError('load oob 0x%x+%d obj 0x%x size %d' % (addr, sz, o.base, o.size))
        if not o.live: raise MemError('use after free 0x%x' % addr)
        if o.sym:
            # any symbolic byte in range?
            hit = False
            for i in range(off, off + sz):
                if i in o.sym: hit = True; break
            if hit:
                parts = []
                i = off + sz - 1
                # assemble big-endian concat from high byte to low
                while i >= off:
                    e = o.sym.get(i)
                    if e is None:
                        parts.append(z3.BitVecVal(o.data[i], 8))
                    else:
                        expr, bi = e
                        parts.append(z3.Extract(bi * 8 + 7, bi * 8, expr))
                    i -= 1
                v = parts[0] if len(parts) == 1 else z3.Concat(*parts)
                return z3.simplify(v)
        return int.from_bytes(o.data[off:off + sz], 'little')

    def store_bytes(s, addr, sz, v):
        o = s.mem.find(addr)
        off = addr - o.base
        if off + sz > o.size: raise MemError('store oob 0x%x+%d obj 0x%x size %d' % (addr, sz, o.base, o.size))
        if not o.live: raise MemError('store after free 0x%x' % addr)
        if is_sym(v):
            if o.sym is None: o.sym = {}
            for i in range(sz):
                o.sym[off + i] = (v, i)
        else:
            o.data[off:off + sz] = (v & ((1 << (8 * sz)) - 1)).to_bytes(sz, 'little')
            if o.sym:
                for i in range(off, off + sz):
                    o.sym.pop(i, None)

    def store(s, addr, t, v):
        if is_sym(addr): raise Unsupported('symbolic address (store)')
        rt = s.tc.resolve(t); k = rt.k
        if k == 'int':
            sz = s.tc.size(rt)
            if is_sym(v):
                if v.size() < sz * 8: v = z3.ZeroExt(sz * 8 - v.size(), v)
            s.store_bytes(addr, sz, v)
        elif k == 'ptr':
            s.store_bytes(addr, 8, v)
        elif k == 'double':
            if is_sym(v): s.store_bytes(addr, 8, z3.fpToIEEEBV(v))
            else: s.store_bytes(addr, 8, f64_bits(v))
        elif k == 'float':
            s.store_bytes(addr, 4, f32_bits(v))
        elif k == 'vector' and s.tc.resolve(rt.el).k == 'int' and s.tc.resolve(rt.el).bits == 1:
            r = 0
            for i, b in enumerate(v):
                if is_sym(b): raise Unsupported('symbolic i1 vector store')
                r |= (b & 1) << i
            s.store_bytes(addr, (rt.n + 7) // 8, r)
        elif k in ('array', 'vector'):
            es = s.tc.size(rt.el)
            for i, e in enumerate(v): s.store(addr + i * es, rt.el, e)
        elif k == 'struct':
            offs = s.tc.offsets(rt)
            for o_, f, e in zip(offs, rt.fields, v): s.store(addr + o_, f, e)
        else:
            raise NotImplementedError('store %r' % rt)

    def memcpy(s, dst, src, n):
        if n == 0: return
        so = s.mem.find(src); do = s.mem.find(dst)
        a = src - so.base; b = dst - do.base
        if a + n > so.size or b + n > do.size: raise MemError('memcpy oob')
        data = bytes(so.data[a:a + n])
        symsrc = None
        if so.sym:
            symsrc = {i - a: so.sym[i] for i in range(a, a + n) if i in so.sym}
        do.data[b:b + n] = data
        if do.sym:
            for i in range(b, b + n): do.sym.pop(i, None)
        if symsrc:
            if do.sym is None: do.sym = {}
            for i, e in symsrc.items(): do.sym[b + i] = e

    # ---- gep / casts / ops
    def gep(s, bt, base, idx, idxtypes):
        tc = s.tc
        addr = base
        t = bt
        first = True
        for i, it in zip(idx, idxtypes):
            if is_sym(i): raise Unsupported('symbolic gep index')
            bits = tc.resolve(it).bits
            iv = sx(i, bits)
            if first:
                addr += iv * tc.size(t); first = False
            else:
                rt = tc.resolve(t)
                if rt.k == 'struct':
                    addr += tc.offsets(rt)[iv]; t = rt.fields[iv]
                elif rt.k in ('array', 'vector'):
                    addr += iv * tc.size(rt.el); t = rt.el
                else:
                    raise NotImplementedError('gep into %r' % rt)
        return addr & 0xFFFFFFFFFFFFFFFF

    def cast(s, op, ft, v, tt):
        tc = s.tc
        rf = tc.resolve(ft); rt = tc.resolve(tt)
        if rf.k == 'vector':
            if op == 'bitcast':
                return s.bitcast_agg(rf, v, rt)
            return [s.cast(op, rf.el, e, rt.el) for e in v]
        if op == 'trunc':
            if is_sym(v): return z3.simplify(z3.Extract(rt.bits - 1, 0, v))
            return v & ((1 << rt.bits) - 1)
        if op == 'zext':
            if is_sym(v): return z3.ZeroExt(rt.bits - rf.bits, v)
            return v
        if op == 'sext':
            if is_sym(v): return z3.SignExt(rt.bits - rf.bits, v)
            return sx(v, rf.bits) & ((1 << rt.bits) - 1)
        if op in ('ptrtoint',):
            return v & ((1 << rt.bits) - 1)
        if op in ('inttoptr', 'addrspacecast'):
            return v
        if op == 'bitcast':
            if rf.k == rt.k: return v
            if rf.k == 'double' and rt.k == 'int':
                return z3.fpToIEEEBV(v) if is_sym(v) else f64_bits(v)
            if rf.k == 'int' and rt.k == 'double':
                return z3.fpBVToFP(v, F64) if is_sym(v) else bits_f64(v)
            if rf.k == 'float' and rt.k == 'int': return f32_bits(v)
            if rf.k == 'int' and rt.k == 'float': return bits_f32(v)
            if rt.k == 'vector' or rf.k == 'vector': return s.bitcast_agg(rf, v, rt)
            raise NotImplementedError('bitcast %r->%r' % (rf, rt))
        if op in ('sitofp', 'uitofp'):
            if is_sym(v):
                return z3.fpSignedToFP(RNE, v, F64) if op == 'sitofp' else z3.fpUnsignedToFP(RNE, v, F64)
            x = sx(v, rf.bits) if op == 'sitofp' else v
            r = float(x) if abs(x) < (1 << 1000) else (math.inf if x > 0 else -math.inf)
            if rt.k == 'float': r = bits_f32(f32_bits_safe(r))
            return r
        if op in ('fptosi', 'fptoui'):
            if is_sym(v):
                raise Unsupported('symbolic fptoint')
            if v != v: return 0
            if math.isinf(v):
                x = (1 << (rt.bits - (1 if op == 'fptosi' else 0))) - 1 if v > 0 else (-(1 << (rt.bits - 1)) if op == 'fptosi' else 0)
            else:
                x = int(v)
            return x & ((1 << rt.bits) - 1)
        if op == 'fpext': return v
        if op == 'fptrunc':
            return bits_f32(f32_bits_safe(v))
        raise NotImplementedError('cast ' + op)

    def bitcast_agg(s, rf, v, rt):
        if rf.k == 'vector' and s.tc.resolve(rf.el).k == 'int' and s.tc.resolve(rf.el).bits == 1 and rt.k == 'int':
            r = 0
            for i, b in enumerate(v):
                if is_sym(b): raise Unsupported('symbolic i1 vector bitcast')
                r |= (b & 1) << i
            return r
        # via memory
        o = s.mem.alloc(64, 16, 'tmp')
        s.store(o.base, rf, v)
        r = s.load(o.base, rt)
        o.live = False
        return r

    def binop(s, op, rt, a, b):
        if rt.k == 'vector':
            el = s.tc.resolve(rt.el)
            return [s.binop(op, el, x, y) for x, y in zip(a, b)]
        if rt.k == 'int':
            bits = rt.bits; mask = (1 << bits) - 1
            if is_sym(a) or is_sym(b):
                a = to_bv(a, bits); b = to_bv(b, bits)
                r = {'add': lambda: a + b, 'sub': lambda: a - b, 'mul': lambda: a * b, 'and': lambda: a & b, 'or': lambda: a | b,
                     'xor': lambda: a ^ b, 'shl': lambda: a << b, 'lshr': lambda: z3.LShR(a, b), 'ashr': lambda: a >> b,
                     'udiv': lambda: z3.UDiv(a, b), 'urem': lambda: z3.URem(a, b), 'sdiv': lambda: a / b, 'srem': lambda: z3.SRem(a, b)}[op]()
                return z3.simplify(r)
            if op == 'add': return (a + b) & mask
            if op == 'sub': return (a - b) & mask
            if op == 'mul': return (a * b) & mask
            if op == 'and': return a & b
            if op == 'or': return a | b
            if op == 'xor': return a ^ b
            if op == 'shl': return (a << b) & mask if b < bits else 0
            if op == 'lshr': return a >> b if b < bits else 0
            if op == 'ashr': return (sx(a, bits) >> min(b, bits - 1)) & mask
            if op == 'udiv':
                if b == 0: raise Panic('udiv by zero')
                return a // b
            if op == 'urem':
                if b == 0: raise Panic('urem by zero')
                return a % b
            if op == 'sdiv':
                x, y = sx(a, bits), sx(b, bits)
                if y == 0: raise Panic('sdiv by zero')
                q = abs(x) // abs(y)
                if (x < 0) != (y < 0): q = -q
                return q & mask
            if op == 'srem':
                x, y = sx(a, bits), sx(b, bits)
                if y == 0: raise Panic('srem by zero')
                r = abs(x) % abs(y)
                if x < 0: r = -r
                return r & mask
            raise NotImplementedError(op)
        # float
        if is_sym(a) or is_sym(b):
            a = to_fp(a); b = to_fp(b)
            r = {'fadd': lambda: z3.fpAdd(RNE, a, b), 'fsub': lambda: z3.fpSub(RNE, a, b), 'fmul': lambda: z3.fpMul(RNE, a, b),
                 'fdiv': lambda: z3.fpDiv(RNE, a, b), 'frem': lambda: z3.fpRem(a, b)}[op]()
            return r
        if rt.k == 'float':
            r = s.binop(op, DOUBLE, a, b)
            return bits_f32(f32_bits_safe(r))
        if op == 'fadd': return a + b
        if op == 'fsub': return a - b
        if op == 'fmul': return fmul(a, b)
        if op == 'fdiv': return fdiv(a, b)
        if op == 'frem': return math.fmod(a, b) if not (math.isinf(a) or b == 0 or a != a or b != b) else math.nan
        raise NotImplementedError(op)

    def icmp(s, pred, rt, a, b):
        if rt.k == 'vector':
            el = s.tc.resolve(rt.el)
            return [s.icmp(pred, el, x, y) for x, y in zip(a, b)]
        bits = 64 if rt.k == 'ptr' else rt.bits
        if is_sym(a) or is_sym(b):
            a = to_bv(a, bits); b = to_bv(b, bits)
            c = {'eq': lambda: a == b, 'ne': lambda: a != b, 'ugt': lambda: z3.UGT(a, b), 'uge': lambda: z3.UGE(a, b),
                 'ult': lambda: z3.ULT(a, b), 'ule': lambda: z3.ULE(a, b), 'sgt': lambda: a > b, 'sge': lambda: a >= b,
                 'slt': lambda: a < b, 'sle': lambda: a <= b}[pred]()
            return z3.simplify(z3.If(c, z3.BitVecVal(1, 1), z3.BitVecVal(0, 1)))
        if pred == 'eq': return int(a == b)
        if pred == 'ne': return int(a != b)
        if pred == 'ugt': return int(a > b)
        if pred == 'uge': return int(a >= b)
        if pred == 'ult': return int(a < b)
        if pred == 'ule': return int(a <= b)
        x, y = sx(a, bits), sx(b, bits)
        if pred == 'sgt': return int(x > y)
        if pred == 'sge': return int(x >= y)
        if pred == 'slt': return int(x < y)
        if pred == 'sle': return int(x <= y)
        raise NotImplementedError(pred)

    def fcmp(s, pred, a, b):
        if is_sym(a) or is_sym(b):
            a = to_fp(a); b = to_fp(b)
            un = z3.Or(z3.fpIsNaN(a), z3.fpIsNaN(b))
            base = {'eq': z3.fpEQ(a, b), 'gt': z3.fpGT(a, b), 'ge': z3.fpGEQ(a, b), 'lt': z3.fpLT(a, b), 'le': z3.fpLEQ(a, b),
                    'ne': z3.And(z3.Not(un), z3.Not(z3.fpEQ(a, b)))}
            if pred == 'ord': c = z3.Not(un)
            elif pred == 'uno': c = un
            elif pred == 'true': c = z3.BoolVal(True)
            elif pred == 'false': c = z3.BoolVal(False)
            elif pred[0] == 'o': c = base[pred[1:]]
            else: c = z3.Or(un, base[pred[1:]])
            return z3.simplify(z3.If(c, z3.BitVecVal(1, 1), z3.BitVecVal(0, 1)))
        un = (a != a) or (b != b)
        if pred == 'ord': return int(not un)
        if pred == 'uno': return int(un)
        if pred == 'true': return 1
        if pred == 'false': return 0
        p = pred[1:]
        if un: return int(pred[0] == 'u')
        r = {'eq': a == b, 'gt': a > b, 'ge': a >= b, 'lt': a < b, 'le': a <= b, 'ne': a != b}[p]
        return int(r)

    # ---- symbolic branching
    def branch(s, cond_bv1):
        """cond is a symbolic i1; returns concrete 0/1 choosing a feasible side; records alternatives"""
        c = (cond_bv1 == z3.BitVecVal(1, 1))
        if s.dpos < len(s.decisions):
            d = s.decisions[s.dpos]; s.dpos += 1
            s.path.append(c if d else z3.Not(c))
            return d
        t0 = time.time()
        sol = z3.Solver()
        sol.add(*s.path)
        sol.push(); sol.add(c); rt = sol.check(); sol.pop()
        sol.push(); sol.add(z3.Not(c)); rf = sol.check(); sol.pop()
        s.queries += 2; s.solver_time += time.time() - t0
        if rt == z3.unknown or rf == z3.unknown: raise Unsupported('solver unknown at branch')
        if rt == z3.sat and rf == z3.sat:
            s.pending.append(s.decisions[:s.dpos] + [0])
            d = 1
        elif rt == z3.sat: d = 1
        elif rf == z3.sat: d = 0
        else: raise PathEnd('infeasible path')
        s.decisions.append(d); s.dpos += 1
        s.path.append(c if d else z3.Not(c))
        return d

    def concretize_bool(s, v):
        if is_sym(v): return s.branch(v)
        return v & 1

    # ---- function parsing
    def parse_fn(s, fn):
        mod = s.mod; lines = mod.lines
        hdr = lines[fn.start]
        toks = tokenize(hdr)
        p = P(toks, s.tc)
        # find the '(' after function name
        while p.next()[1] != fn.name: pass
        p.expect('(')
        regmap = {}
        fp = FnParser(mod, regmap)
        params = []
        fn.vararg = False
        anon = 0
        if not p.accept(')'):
            while True:
                if p.accept('...'):
                    fn.vararg = True; p.expect(')'); break
                t = p.type(); skip_param_attrs(p)
                if p.peek()[0] == 'lid':
                    nm = p.next()[1]
                else:
                    nm = '%' + str(anon)
                if re.fullmatch(r'%\d+', nm): anon = int(nm[1:]) + 1
                params.append((t, fp.reg(nm)))
                if p.accept(')'): break
                p.expect(',')
        else:
            pass
        fn.params = params
        # body
        code = []; labels = {}
        i = fn.start + 1
        # implicit first block label = next anon number
        first_label = '%' + str(anon)
        cur_label = None
        pending_label = first_label
        rawphis = []
        while i < fn.end:
            ln = lines[i]; i += 1
            st = ln.strip()
            if not st or st[0] == ';': continue
            m = re.match(r'^("[^"]*"|[\w.$\-]+):', ln)
            if m and not ln.startswith(' '):
                pending_label = '%' + m.group(1)
                continue
            # join continuation lines
            if st.startswith('switch') and not st.rstrip().endswith(']'):
                while not lines[i].strip().startswith(']'):
                    st += ' ' + lines[i].strip(); i += 1
                st += ' ]'; i += 1
            if ('invoke ' in st) and ' to label ' not in st:
                st += ' ' + lines[i].strip(); i += 1
            if 'landingpad' in st:
                while i < fn.end and re.match(r'^\s+(cleanup|catch|filter)', lines[i]): i += 1
                st = None
            if pending_label is not None:
                labels[pending_label] = len(code); cur_label = pending_label; pending_label = None
                code.append(('label', cur_label))
            if st is None:
                code.append(('landingpad',)); continue
            try:
                ins = s.parse_instr(st, fp)
            except Exception as e:
                raise SyntaxError('in %s line %d: %s\n  %s' % (fn.name, i, e, st[:300]))
            code.append(ins)
        fn.code = code; fn.labels = labels; fn.nregs = None; fn.parsed = True
        # resolve labels -> indexes lazily in exec (use dict)
        fn.nregs = len(regmap) + 8
        fn.blocks = regmap

    def parse_call(s, p, fp, dest):
        # after 'call'/'invoke' keyword
        while p.peek()[0] == 'word' and p.peek()[1] in ('fastcc', 'ccc', 'coldcc', 'tailcc', 'cc', 'fast', 'nnan', 'ninf', 'nsz', 'arcp', 'contract', 'afn', 'reassoc', 'preserve_mostcc', 'preserve_allcc', 'preserve_nonecc'):
            w = p.next()[1]
            if w == 'cc': p.next()
        skip_param_attrs(p)
        rt = p.type()
        if rt.k == 'fn': rt = rt.el
        k, v = p.peek()
        if k == 'word' and v == 'asm':
            return ('nop',)
        if k == 'gid':
            p.next(); callee = ('g', v)
        elif k == 'lid':
            p.next(); callee = ('l', fp.reg(v))
        else:
            callee = fp.value(p, PTR)
        p.expect('(')
        args = []
        if not p.accept(')'):
            while True:
                at = p.type(); skip_param_attrs(p)
                if at.k == 'metadata':
                    # metadata arg
                    while p.peek()[1] not in (',', ')'): p.next()
                    args.append((at, ('c', 0)))
                else:
                    args.append((at, fp.value(p, at)))
                if p.accept(')'): break
                p.expect(',')
        return ('call', dest, rt, callee, args)

    def parse_instr(s, st, fp):
        toks = tokenize(st)
        # strip trailing metadata / attributes
        cut = len(toks)
        for j, (k, v) in enumerate(toks):
            if k == 'meta' and j > 0 and toks[j-1][1] == ',' :
                cut = j - 1; break
        toks = [t for t in toks[:cut] if t[0] != 'attr']
        p = P(toks, s.tc)
        dest = None
        if p.peek()[0] == 'lid' and p.peek(1)[1] == '=':
            dest = fp.reg(p.next()[1]); p.next()
        op = p.next()[1]
        if op in ('tail', 'musttail', 'notail'):
            op = p.next()[1]
        if op == 'call':
            return s.parse_call(p, fp, dest)
        if op == 'invoke':
            c = s.parse_call(p, fp, dest)
            p.expect('to'); p.expect('label'); nl = p.next()[1]
            return ('invoke', c, nl)
        if op == 'ret':
            t = p.type()
            if t.k == 'void': return ('ret', None, None)
            return ('ret', t, fp.value(p, t))
        if op == 'br':
            if p.accept('label'):
                return ('br', p.next()[1])
            t = p.type(); c = fp.value(p, t); p.expect(','); p.expect('label'); a = p.next()[1]; p.expect(','); p.expect('label'); b = p.next()[1]
            return ('condbr', c, a, b)
        if op == 'switch':
            t = p.type(); v = fp.value(p, t); p.expect(','); p.expect('label'); dflt = p.next()[1]; p.expect('[')
            cases = {}
            while not p.accept(']'):
                ct = p.type(); cv = fp.value(p, ct); p.expect(','); p.expect('label'); cases[cv[1]] = p.next()[1]
            return ('switch', t, v, dflt, cases)
        if op == 'unreachable': return ('unreachable',)
        if op == 'resume': return ('unreachable',)
        if op == 'phi':
            while p.peek()[1] in ('fast', 'nnan', 'ninf', 'nsz', 'arcp', 'contract', 'afn', 'reassoc'): p.next()
            t = p.type(); inc = {}
            while True:
                p.expect('['); v = fp.value(p, t); p.expect(','); l = p.next()[1]; p.expect(']')
                inc[l] = v
                if not p.accept(','): break
            return ('phi', dest, t, inc)
        if op == 'alloca':
            if p.accept('inalloca'): pass
            t = p.type(); n = ('c', 1); al = 16
            while p.accept(','):
                if p.accept('align'): al = int(p.next()[1])
                elif p.accept('addrspace'): skip_parens(p)
                else:
                    nt = p.type(); n = fp.value(p, nt)
            return ('alloca', dest, t, n, al)
        if op == 'load':
            while p.peek()[1] in ('atomic', 'volatile'): p.next()
            t = p.type(); p.expect(','); pt = p.type(); a = fp.value(p, pt)
            return ('load', dest, t, a)
        if op == 'store':
            while p.peek()[1] in ('atomic', 'volatile'): p.next()
            t = p.type(); v = fp.value(p, t); p.expect(','); pt = p.type(); a = fp.value(p, pt)
            return ('store', t, v, a)
        if op == 'getelementptr':
            while p.peek()[1] in ('inbounds', 'nuw', 'nusw'): p.next()
            bt = p.type(); p.expect(','); pt = p.type(); base = fp.value(p, pt)
            idx = []; its = []
            while p.accept(','):
                it = p.type(); its.append(it); idx.append(fp.value(p, it))
            # fast path: i8 base with single const index
            return ('gep', dest, bt, base, idx, its)
        if op in ('add', 'sub', 'mul', 'udiv', 'sdiv', 'urem', 'srem', 'shl', 'lshr', 'ashr', 'and', 'or', 'xor', 'fadd', 'fsub', 'fmul', 'fdiv', 'frem'):
            while p.peek()[1] in ('nuw', 'nsw', 'exact', 'disjoint', 'fast', 'nnan', 'ninf', 'nsz', 'arcp', 'contract', 'afn', 'reassoc'): p.next()
            t = p.type(); a = fp.value(p, t); p.expect(','); b = fp.value(p, t)
            return ('bin', dest, op, s.tc.resolve(t), a, b)
        if op == 'fneg':
            while p.peek()[1] in ('fast', 'nnan', 'ninf', 'nsz', 'arcp', 'contract', 'afn', 'reassoc'): p.next()
            t = p.type(); a = fp.value(p, t)
            return ('fneg', dest, a)
        if op == 'icmp':
            while p.peek()[1] in ('samesign',): p.next()
            pred = p.next()[1]; t = p.type(); a = fp.value(p, t); p.expect(','); b = fp.value(p, t)
            return ('icmp', dest, pred, s.tc.resolve(t), a, b)
        if op == 'fcmp':
            while p.peek()[1] in ('fast', 'nnan', 'ninf', 'nsz', 'arcp', 'contract', 'afn', 'reassoc'): p.next()
            pred = p.next()[1]; t = p.type(); a = fp.value(p, t); p.expect(','); b = fp.value(p, t)
            return ('fcmp', dest, pred, a, b)
        if op in ('trunc', 'zext', 'sext', 'fptoui', 'fptosi', 'uitofp', 'sitofp', 'fptrunc', 'fpext', 'ptrtoint', 'inttoptr', 'bitcast', 'addrspacecast'):
            while p.peek()[1] in ('nuw', 'nsw', 'nneg'): p.next()
            ft = p.type(); v = fp.value(p, ft); p.expect('to'); tt = p.type()
            return ('cast', dest, op, ft, v, tt)
        if op == 'select':
            while p.peek()[1] in ('fast', 'nnan', 'ninf', 'nsz', 'arcp', 'contract', 'afn', 'reassoc'): p.next()
            ct = p.type(); c = fp.value(p, ct); p.expect(','); t = p.type(); a = fp.value(p, t); p.expect(','); t2 = p.type(); b = fp.value(p, t2)
            return ('select', dest, s.tc.resolve(ct), c, s.tc.resolve(t), a, b)
        if op == 'extractvalue':
            t = p.type(); v = fp.value(p, t); idx = []
            while p.accept(','): idx.append(int(p.next()[1]))
            return ('extractvalue', dest, v, idx)
        if op == 'insertvalue':
            t = p.type(); v = fp.value(p, t); p.expect(','); et = p.type(); e = fp.value(p, et); idx = []
            while p.accept(','): idx.append(int(p.next()[1]))
            return ('insertvalue', dest, v, e, idx)
        if op == 'extractelement':
            t = p.type(); v = fp.value(p, t); p.expect(','); it = p.type(); i = fp.value(p, it)
            return ('extractelement', dest, v, i)
        if op == 'insertelement':
            t = p.type(); v = fp.value(p, t); p.expect(','); et = p.type(); e = fp.value(p, et); p.expect(','); it = p.type(); i = fp.value(p, it)
            return ('insertelement', dest, v, e, i)
        if op == 'shufflevector':
            t = p.type(); a = fp.value(p, t); p.expect(','); t2 = p.type(); b = fp.value(p, t2); p.expect(','); mt = p.type(); m = fp.value(p, mt)
            return ('shufflevector', dest, a, b, m, s.tc.resolve(mt).n)
        if op == 'freeze':
            t = p.type(); v = fp.value(p, t)
            return ('freeze', dest, v)
        if op == 'atomicrmw':
            p.accept('volatile'); aop = p.next()[1]; pt = p.type(); a = fp.value(p, pt); p.expect(','); t = p.type(); v = fp.value(p, t)
            return ('atomicrmw', dest, aop, a, s.tc.resolve(t), v)
        if op == 'cmpxchg':
            p.accept('weak'); p.accept('volatile'); pt = p.type(); a = fp.value(p, pt); p.expect(','); t = p.type(); c = fp.value(p, t); p.expect(','); t2 = p.type(); n = fp.value(p, t2)
            return ('cmpxchg', dest, a, s.tc.resolve(t), c, n)
        if op == 'fence': return ('nop',)
        raise NotImplementedError('instr ' + op)

    # ---- evaluation of operands
    def ev(s, regs, op):
        k = op[0]
        if k == 'l':
            return regs[op[1]]
        if k == 'c': return op[1]
        if k == 'g': return s.global_addr(op[1])
        if k == 'agg': return [s.ev(regs, e) for e in op[1]]
        if k == 'gep':
            _, bt, base, idx = op
            return s.gep(bt, s.ev(regs, base), [s.ev(regs, i) for i in idx], [I64] * len(idx))
        if k == 'cast':
            _, cop, ft, v, tt = op
            return s.cast(cop, ft, s.ev(regs, v), tt)
        if k == 'bin':
            _, bop, t1, a, b = op
            return s.binop(bop, s.tc.resolve(t1), s.ev(regs, a), s.ev(regs, b))
        raise NotImplementedError(op)

    # ---- call
    def call(s, name, args):
        fn = s.mod.funcs.get(name)
        if fn is None:
            tgt = s.mod.aliases.get(name)
            if tgt and tgt in s.mod.funcs: fn = s.mod.funcs[tgt]
        if fn is None:
            return s.external(name, args)
        if not fn.parsed: s.parse_fn(fn)
        h = s.hooks.get(name)
        if h: return h(s, args)
        regs = [None] * fn.nregs
        for (t, r), a in zip(fn.params, args): regs[r] = a
        return s.run(fn, regs)

    def run(s, fn, regs):
        code = fn.code; labels = fn.labels
        pc = 0; prev = None; cur = None
        allocas = []
        ev = s.ev
        s.depth += 1
        if s.depth > 2000: raise Unsupported('call depth')
        try:
            while True:
                ins = code[pc]; pc += 1
                op = ins[0]
                s.ninstr += 1
                if op == 'label':
                    prev = cur; cur = ins[1]
                    # evaluate phis atomically
                    if code[pc][0] == 'phi':
                        vals = []
                        q = pc
                        while code[q][0] == 'phi':
                            pi = code[q]
                            vals.append((pi[1], ev(regs, pi[3][prev])))
                            q += 1
                        for d, v in vals: regs[d] = v
                        s.ninstr += q - pc
                        pc = q
                    continue
                if op == 'load':
                    regs[ins[1]] = s.load(ev(regs, ins[3]), ins[2]); continue
                if op == 'store':
                    s.store(ev(regs, ins[3]), ins[1], ev(regs, ins[2])); continue
                if op == 'gep':
                    _, d, bt, base, idx, its = ins
                    regs[d] = s.gep(bt, ev(regs, base), [ev(regs, i) for i in idx], its); continue
                if op == 'icmp':
                    regs[ins[1]] = s.icmp(ins[2], ins[3], ev(regs, ins[4]), ev(regs, ins[5])); continue
                if op == 'bin':
                    regs[ins[1]] = s.binop(ins[2], ins[3], ev(regs, ins[4]), ev(regs, ins[5])); continue
                if op == 'br':
                    pc = labels[ins[1]]; continue
                if op == 'condbr':
                    c = ev(regs, ins[1])
                    if is_sym(c): c = s.branch(c)
                    pc = labels[ins[2] if c & 1 else ins[3]]; continue
                if op == 'call':
                    r = s.do_call(regs, ins)
                    if ins[1] is not None: regs[ins[1]] = r
                    continue
                if op == 'invoke':
                    c = ins[1]
                    r = s.do_call(regs, c)
                    if c[1] is not None: regs[c[1]] = r
                    pc = labels[ins[2]]; continue
                if op == 'cast':
                    regs[ins[1]] = s.cast(ins[2], ins[3], ev(regs, ins[4]), ins[5]); continue
                if op == 'select':
                    _, d, ct, c, t, a, b = ins
                    cv = ev(regs, c)
                    if ct.k == 'vector':
                        av = ev(regs, a); bv = ev(regs, b)
                        regs[d] = [x if (cc & 1) else y for cc, x, y in zip(cv, av, bv)]
                    elif is_sym(cv):
                        av = ev(regs, a); bv = ev(regs, b)
                        regs[d] = s.sym_select(cv, t, av, bv)
                    else:
                        regs[d] = ev(regs, a) if cv & 1 else ev(regs, b)
                    continue
                if op == 'ret':
                    return None if ins[1] is None else ev(regs, ins[2])
                if op == 'alloca':
                    _, d, t, n, al = ins
                    cnt = ev(regs, n)
                    o = s.mem.alloc(s.tc.size(t) * cnt, al, 'stack'); allocas.append(o)
                    regs[d] = o.base; continue
                if op == 'switch':
                    _, t, v, dflt, cases = ins
                    x = ev(regs, v)
                    if is_sym(x):
                        x = s.concretize_switch(x, s.tc.resolve(t).bits, cases)
                    pc = labels[cases.get(x, dflt)]; continue
                if op == 'extractvalue':
                    v = ev(regs, ins[2])
                    for i in ins[3]: v = v[i]
                    regs[ins[1]] = v; continue
                if op == 'insertvalue':
                    v = ev(regs, ins[2]); e = ev(regs, ins[3])
                    regs[ins[1]] = ins_val(v, e, ins[4]); continue
                if op == 'fcmp':
                    regs[ins[1]] = s.fcmp(ins[2], ev(regs, ins[3]), ev(regs, ins[4])); continue
                if op == 'fneg':
                    a = ev(regs, ins[2])
                    regs[ins[1]] = z3.fpNeg(a) if is_sym(a) else -a; continue
                if op == 'freeze':
                    regs[ins[1]] = ev(regs, ins[2]); continue
                if op == 'unreachable':
                    raise Panic('unreachable executed in ' + fn.name)
                if op == 'atomicrmw':
                    _, d, aop, a, t, v = ins
                    addr = ev(regs, a); old = s.load(addr, t); x = ev(regs, v)
                    if aop == 'xchg': new = x
                    elif aop == 'add': new = s.binop('add', t, old, x)
                    elif aop == 'sub': new = s.binop('sub', t, old, x)
                    elif aop == 'and': new = old & x
                    elif aop == 'or': new = old | x
                    elif aop == 'xor': new = old ^ x
                    elif aop == 'umax': new = max(old, x)
                    elif aop == 'umin': new = min(old, x)
                    else: raise NotImplementedError(aop)
                    s.store(addr, t, new); regs[d] = old; continue
                if op == 'cmpxchg':
                    _, d, a, t, c, n = ins
                    addr = ev(regs, a); old = s.load(addr, t); cv = ev(regs, c)
                    if old == cv:
                        s.store(addr, t, ev(regs, n)); regs[d] = [old, 1]
                    else: regs[d] = [old, 0]
                    continue
                if op == 'insertelement':
                    v = list(ev(regs, ins[2])); v[ev(regs, ins[4])] = ev(regs, ins[3]); regs[ins[1]] = v; continue
                if op == 'extractelement':
                    regs[ins[1]] = ev(regs, ins[2])[ev(regs, ins[3])]; continue
                if op == 'shufflevector':
                    a = ev(regs, ins[2]); b = ev(regs, ins[3]); m = ev(regs, ins[4])
                    ab = list(a) + list(b)
                    regs[ins[1]] = [ab[i] for i in m]; continue
                if op == 'nop': continue
                if op == 'landingpad':
                    raise Panic('landingpad reached')
                if op == 'phi':
                    raise RuntimeError('stray phi')
                raise NotImplementedError(op)
        finally:
            s.depth -= 1
            for o in allocas: o.live = False

    def sym_select(s, c, t, a, b):
        cb = (c == z3.BitVecVal(1, 1))
        if t.k in ('double',):
            return z3.If(cb, to_fp(a), to_fp(b))
        if t.k == 'int':
            return z3.If(cb, to_bv(a, t.bits), to_bv(b, t.bits))
        if t.k == 'ptr':
            if a == b: return a
            return a if s.branch(c) else b
        raise Unsupported('symbolic select of %r' % t)

    def concretize_switch(s, x, bits, cases):
        for cv in cases:
            c = z3.If(x == z3.BitVecVal(cv, bits), z3.BitVecVal(1, 1), z3.BitVecVal(0, 1))
            if s.branch(z3.simplify(c)): return cv
        return -1

    def do_call(s, regs, ins):
        _, d, rt, callee, args = ins
        if callee[0] == 'g': name = callee[1]
        else:
            a = s.ev(regs, callee)
            name = s.addr2fn.get(a)
            if name is None: raise MemError('indirect call to 0x%x' % a)
        argv = [s.ev(regs, a) for _, a in args]
        if name.startswith('@llvm.'):
            return s.intrinsic(name, argv, rt, [t for t, _ in args])
        return s.call(name, argv)

    # ---- intrinsics
    def intrinsic(s, name, a, rt, ats):
        n = name[6:]
        if n.startswith('lifetime.') or n.startswith('dbg.') or n.startswith('experimental.noalias') or n.startswith('assume') or n.startswith('prefetch') or n.startswith('donothing'):
            return None
        if n.startswith('memcpy.') or n.startswith('memmove.'):
            s.memcpy(a[0], a[1], a[2]); return None
        if n.startswith('memset.'):
            dst, val, ln = a[0], a[1], a[2]
            if ln:
                o = s.mem.find(dst); off = dst - o.base
                if off + ln > o.size: raise MemError('memset oob')
                o.data[off:off + ln] = bytes([val & 0xff]) * ln
                if o.sym:
                    for i in range(off, off + ln): o.sym.pop(i, None)
            return None
        rtt = s.tc.resolve(rt)
        bits = rtt.bits if rtt.k == 'int' else None
        base = n.split('.')[0]
        if base in ('umax', 'umin', 'smax', 'smin'):
            x, y = a
            if is_sym(x) or is_sym(y): raise Unsupported('sym minmax')
            if base == 'umax': return max(x, y)
            if base == 'umin': return min(x, y)
            sxx, syy = sx(x, bits), sx(y, bits)
            r = max(sxx, syy) if base == 'smax' else min(sxx, syy)
            return r & ((1 << bits) - 1)
        if base == 'abs':
            return abs(sx(a[0], bits)) & ((1 << bits) - 1)
        if base in ('ctlz', 'cttz', 'ctpop', 'bswap', 'bitreverse'):
            x = a[0]
            if is_sym(x): raise Unsupported('sym bitop')
            if base == 'ctpop': return bin(x).count('1')
            if base == 'ctlz': return bits - x.bit_length()
            if base == 'cttz': return bits if x == 0 else (x & -x).bit_length() - 1
            if base == 'bswap': return int.from_bytes(x.to_bytes(bits // 8, 'little'), 'big')
            if base == 'bitreverse': return int(format(x, '0%db' % bits)[::-1], 2)
        if base in ('fshl', 'fshr'):
            x, y, sh = a; sh %= bits
            cat = (x << bits) | y
            if base == 'fshl': return (cat >> (bits - sh)) & ((1 << bits) - 1) if sh else x
            return (cat >> sh) & ((1 << bits) - 1)
        if n.split('.')[0] in ('uadd', 'usub', 'sadd', 'ssub', 'umul', 'smul'):
            kind = n.split('.')[1]  # with / sat
            opn = n.split('.')[0]
            x, y = a
            if is_sym(x) or is_sym(y): raise Unsupported('sym overflow intrinsic')
            ob = s.tc.resolve(ats[0]).bits
            mask = (1 << ob) - 1
            signed = opn[0] == 's'
            xx, yy = (sx(x, ob), sx(y, ob)) if signed else (x, y)
            full = {'add': xx + yy, 'sub': xx - yy, 'mul': xx * yy}[opn[1:]]
            lo, hi = (-(1 << (ob - 1)), (1 << (ob - 1)) - 1) if signed else (0, mask)
            ovf = not (lo <= full <= hi)
            if kind == 'with': return [full & mask, int(ovf)]
            if kind == 'sat': return (min(max(full, lo), hi)) & mask
        if base in ('scmp', 'ucmp'):
            ob = s.tc.resolve(ats[0]).bits
            x, y = a
            if base == 'scmp': x, y = sx(x, ob), sx(y, ob)
            r = (x > y) - (x < y)
            return r & ((1 << bits) - 1)
        if n.startswith('fptoui.sat') or n.startswith('fptosi.sat'):
            x = a[0]
            if is_sym(x): raise Unsupported('symbolic fpto*i.sat')
            signed = n.startswith('fptosi')
            lo, hi = (-(1 << (bits - 1)), (1 << (bits - 1)) - 1) if signed else (0, (1 << bits) - 1)
            if x != x: return 0
            if math.isinf(x): r = hi if x > 0 else lo
            else: r = min(max(int(x), lo), hi)
            return r & ((1 << bits) - 1)
        if base == 'fabs':
            return z3.fpAbs(a[0]) if is_sym(a[0]) else abs(a[0])
        if base == 'copysign':
            if is_sym(a[0]) or is_sym(a[1]): raise Unsupported('sym copysign')
            return math.copysign(a[0], a[1])
        if base in ('floor', 'ceil', 'trunc', 'round', 'rint', 'nearbyint', 'roundeven'):
            x = a[0]
            if is_sym(x):
                rm = {'floor': z3.RTN(), 'ceil': z3.RTP(), 'trunc': z3.RTZ(), 'round': z3.RNA(), 'rint': RNE, 'nearbyint': RNE, 'roundeven': RNE}[base]
                return z3.fpRoundToIntegral(rm, x)
            if x != x or math.isinf(x): return x
            if base == 'floor': return float(math.floor(x)) if abs(x) < 2**53 else x
            if base == 'ceil': return float(math.ceil(x)) if abs(x) < 2**53 else x
            if base == 'trunc': return float(math.trunc(x)) if abs(x) < 2**53 else x
            if base == 'round': return math.copysign(float(math.floor(abs(x) + 0.5)), x) if abs(x) < 2**52 else x
            return float(round(x)) if abs(x) < 2**52 else x
        if base == 'sqrt':
            x = a[0]
            if is_sym(x): return z3.fpSqrt(RNE, x)
            return math.sqrt(x) if x >= 0 else math.nan
        if base == 'pow':
            x, y = a
            if is_sym(x) or is_sym(y): raise Unsupported('symbolic pow')
            return libm.pow(x, y)
        if base == 'powi':
            x, e = a
            if is_sym(x) or is_sym(e): raise Unsupported('symbolic powi')
            return powidf2(x, sx(e, 32))
        if base == 'fmuladd' or base == 'fma':
            raise Unsupported('fma')
        if base == 'is' and n.startswith('is.fpclass'):
            x, mask = a
            return s.fpclass(x, mask)
        if base == 'is' and n.startswith('is.constant'): return 0
        if base == 'expect': return a[0]
        if base == 'trap': raise Panic('llvm.trap')
        if base == 'threadlocal': return a[0]
        if base in ('maxnum', 'minnum'):
            x, y = a
            if is_sym(x) or is_sym(y): raise Unsupported('sym maxnum')
            if x != x: return y
            if y != y: return x
            return max(x, y) if base == 'maxnum' else min(x, y)
        if n.startswith('x86.sse2.pause'): return None
        if base in ('exp', 'log', 'sin', 'cos', 'exp2', 'log2', 'log10'):
            x = a[0]
            if is_sym(x): raise Unsupported('sym ' + base)
            f = getattr(libm, base); f.restype = ctypes.c_double; f.argtypes = [ctypes.c_double]
            return f(x)
        raise NotImplementedError('intrinsic ' + name)

    def fpclass(s, x, mask):
        # bits: 0 snan,1 qnan,2 -inf,3 -normal,4 -subnormal,5 -zero,6 +zero,7 +subnormal,8 +normal,9 +inf
        if is_sym(x):
            conds = []
            neg = z3.fpIsNegative(x); pos = z3.Not(neg)
            tests = [z3.BoolVal(False), z3.fpIsNaN(x), z3.And(z3.fpIsInf(x), neg), z3.And(z3.fpIsNormal(x), neg), z3.And(z3.fpIsSubnormal(x), neg),
                     z3.And(z3.fpIsZero(x), neg), z3.And(z3.fpIsZero(x), pos), z3.And(z3.fpIsSubnormal(x), pos), z3.And(z3.fpIsNormal(x), pos), z3.And(z3.fpIsInf(x), pos)]
            # treat nan as both snan|qnan if either bit set
            for b in range(10):
                if mask >> b & 1:
                    conds.append(tests[1] if b == 0 else tests[b])
            c = z3.Or(*conds) if conds else z3.BoolVal(False)
            return z3.simplify(z3.If(c, z3.BitVecVal(1, 1), z3.BitVecVal(0, 1)))
        if x != x: return int(bool(mask & 3))
        neg = math.copysign(1.0, x) < 0
        if math.isinf(x): b = 2 if neg else 9
        elif x == 0: b = 5 if neg else 6
        elif abs(x) < 2.2250738585072014e-308: b = 4 if neg else 7
        else: b = 3 if neg else 8
        return (mask >> b) & 1

    # ---- externals
    def external(s, name, a):
        n = name[1:]
        if n == 'verif_f64':
            i = a[0]
            v = s.symvars.get(('f', i))
            if v is None:
                v = z3.FP('f%d' % i, F64); s.symvars[('f', i)] = v
            return v
        if n == 'verif_assume':
            c = a[0]
            if is_sym(c):
                s.path.append(c == z3.BitVecVal(1, 1))
                sol = z3.Solver(); sol.add(*s.path)
                if sol.check() != z3.sat: raise PathEnd('assume infeasible')
            elif not (c & 1): raise PathEnd('assume false')
            return None
        if n == 'verif_assert':
            c = a[0]
            s.nasserts += 1
            if is_sym(c):
                t0 = time.time()
                sol = z3.Solver(); sol.add(*s.path); sol.add(c == z3.BitVecVal(0, 1))
                r = sol.check(); s.queries += 1; s.solver_time += time.time() - t0
                if r == z3.sat:
                    m = sol.model()
                    raise Violation({str(k): m.eval(v, model_completion=True) for k, v in s.symvars.items()})
                if r == z3.unknown: raise Unsupported('solver unknown at assert')
            elif not (c & 1):
                sol = z3.Solver(); sol.add(*s.path); sol.check(); m = sol.model()
                raise Violation({str(k): m.eval(v, model_completion=True) for k, v in s.symvars.items()})
            return None
        if n in ('malloc', '__rust_alloc', '__rdl_alloc'):
            return s.mem.alloc(a[0], 16).base
        if n == 'calloc':
            return s.mem.alloc(a[0] * a[1], 16).base
        if n == 'posix_memalign':
            o = s.mem.alloc(a[2], max(a[1], 16)); s.store(a[0], PTR, o.base); return 0
        if n == 'realloc':
            if a[0] == 0: return s.mem.alloc(a[1], 16).base
            old = s.mem.find(a[0]); o = s.mem.alloc(a[1], 16)
            s.memcpy(o.base, old.base, min(old.size, a[1])); old.live = False
            return o.base
        if n == 'free':
            if a[0]: s.mem.find(a[0]).live = False
            return None
        if n in ('memcmp', 'bcmp'):
            x, y, ln = a
            if ln == 0: return 0
            ox = s.mem.find(x); oy = s.mem.find(y)
            if (ox.sym and any(i in ox.sym for i in range(x - ox.base, x - ox.base + ln))) or (oy.sym and any(i in oy.sym for i in range(y - oy.base, y - oy.base + ln))):
                raise Unsupported('memcmp on symbolic bytes')
            bx = bytes(ox.data[x - ox.base:x - ox.base + ln]); by = bytes(oy.data[y - oy.base:y - oy.base + ln])
            r = (bx > by) - (bx < by)
            return r & 0xFFFFFFFF
        if n == 'strlen':
            o = s.mem.find(a[0]); off = a[0] - o.base
            return o.data.index(0, off) - off
        if n == 'getrandom':
            buf, ln = a[0], a[1]
            o = s.mem.find(buf); off = buf - o.base
            o.data[off:off+ln] = bytes((i*37+11) & 0xff for i in range(ln))
            return ln
        if n == '__cxa_thread_atexit_impl': return 0
        if n == '__errno_location':
            if not hasattr(s, 'errno_obj'): s.errno_obj = s.mem.alloc(8, 8)
            return s.errno_obj.base
        if n == 'pthread_key_create':
            if not hasattr(s, 'tls_keys'): s.tls_keys = {}
            k = len(s.tls_keys) + 1; s.tls_keys[k] = 0; s.store(a[0], I32, k); return 0
        if n == 'pthread_getspecific': return s.tls_keys.get(a[0], 0)
        if n == 'pthread_setspecific': s.tls_keys[a[0]] = a[1]; return 0
        if n == 'getenv': return 0
        if n == 'sysconf': return 4096
        if n == 'abort': raise Panic('abort')
        if 'panic' in n or 'unwrap_failed' in n or 'expect_failed' in n or 'slice_index' in n or 'handle_alloc_error' in n or 'capacity_overflow' in n:
            raise Panic(n)
        raise NotImplementedError('external ' + name)

class Violation(Exception):
    def __init__(s, model): s.model = model

def ins_val(v, e, idx):
    v = list(v)
    if len(idx) == 1: v[idx[0]] = e
    else: v[idx[0]] = ins_val(v[idx[0]], e, idx[1:])
    return v

def fmul(a, b):
    try: return a * b
    except OverflowError: return math.inf
def fdiv(a, b):
    if b == 0:
        if a != a or a == 0: return math.nan
        return math.copysign(math.inf, a) * math.copysign(1.0, b)
    try: return a / b
    except OverflowError: return math.inf
def f32_bits_safe(x):
    try: return f32_bits(x)
    except OverflowError: return f32_bits(math.copysign(math.inf, x))

def powidf2(a, b):
    # compiler-rt __powidf2
    recip = b < 0
    r = 1.0
    while True:
        if b & 1: r = fmul(r, a)
        b = int(b / 2)   # truncation toward zero like C
        if b == 0: break
        a = fmul(a, a)
    return fdiv(1.0, r) if recip else r

# ----------------------------------------------------------------------------- driver
def explore(path, entry, max_paths=200, hooks=None):
    t0 = time.time()
    mod = load_module(path)
    print('loaded module: %d functions, %d globals in %.1fs' % (len(mod.funcs), len(mod.globals_src), time.time() - t0))
    pending = [[]]
    npaths = 0; total_instr = 0; results = []
    qt = 0.0; nq = 0; nas = 0
    while pending and npaths < max_paths:
        dec = pending.pop()
        ex = Exec(mod); ex.hooks = hooks or {}
        ex.pending = pending; ex.decisions = list(dec); ex.nasserts = 0
        t1 = time.time()
        try:
            ex.call(entry, [])
            st = 'ok'
        except Violation as v:
            st = 'VIOLATION %s' % v.model
        except PathEnd as e:
            st = 'pathend %s' % e
        except Panic as e:
            st = 'panic %s' % e
        npaths += 1; total_instr += ex.ninstr; qt += ex.solver_time; nq += ex.queries; nas += ex.nasserts
        print('path %d: %s  decisions=%s instr=%d time=%.1fs solver=%.1fs' % (npaths, st, ex.decisions, ex.ninstr, time.time() - t1, ex.solver_time))
        results.append(st)
    print('paths=%d instr=%d queries=%d asserts=%d solver_time=%.1fs wall=%.1fs' % (npaths, total_instr, nq, nas, qt, time.time() - t0))
    return results

if __name__ == '__main__':
    explore(sys.argv[1], '@' + sys.argv[2])
