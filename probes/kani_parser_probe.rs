#[cfg(kani)]
mod kani_parser_probe {
    use super::*;
    use crate::span::ByteIndex;

    fn kind_from(k: u8) -> TokenKind {
        match k {
            0 => TokenKind::Identifier,
            1 => TokenKind::Plus,
            2 => TokenKind::Minus,
            3 => TokenKind::Multiply,
            4 => TokenKind::Divide,
            5 => TokenKind::Power,
            6 => TokenKind::Per,
            _ => TokenKind::ExclamationMark,
        }
    }

    fn depth(e: &Expression) -> usize {
        match e {
            Expression::BinaryOperator { lhs, rhs, .. } => 1 + core::cmp::max(depth(lhs), depth(rhs)),
            Expression::UnaryOperator { expr, .. } => 1 + depth(expr),
            _ => 0,
        }
    }

    #[kani::proof]
    #[kani::unwind(8)]
    fn p_parser_tokens() {
        const N: usize = 5;
        let mut toks: Vec<Token<'static>> = Vec::with_capacity(N + 1);
        for i in 0..N {
            let k: u8 = kani::any();
            kani::assume(k < 8);
            toks.push(Token { kind: kind_from(k), lexeme: "a", span: Span { start: ByteIndex(i as u32), end: ByteIndex(i as u32 + 1), code_source_id: 0 } });
        }
        toks.push(Token { kind: TokenKind::Eof, lexeme: "", span: Span { start: ByteIndex(N as u32), end: ByteIndex(N as u32), code_source_id: 0 } });
        let mut p = Parser::new();
        let r = p.expression(&toks);
        if let Ok(e) = r {
            // a op b op c with * then + : check precedence  a + b * c
            if toks[0].kind == TokenKind::Identifier && toks[1].kind == TokenKind::Plus && toks[2].kind == TokenKind::Identifier && toks[3].kind == TokenKind::Multiply && toks[4].kind == TokenKind::Identifier {
                match &e {
                    Expression::BinaryOperator { op, .. } => assert!(*op == BinaryOperator::Add),
                    _ => assert!(false),
                }
            }
            assert!(depth(&e) <= N);
            std::mem::forget(e);
        }
        std::mem::forget(toks);
    }
}
