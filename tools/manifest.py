#!/usr/bin/env python3
"""Regenerates /verif/MANIFEST.json from the table below (single source of truth for what is claimed)."""
import json, os
HERE = os.path.dirname(os.path.abspath(__file__)); VERIF = os.path.dirname(HERE)

LLSE_NOTE = ('Trusted base: rustc/LLVM up to the emitted IR (the IR is what is checked, not the machine code), the LLSE interpreter '
             '(llse/engine.py; guarded per run by a differential self-test against the native binary and by native replay of every model), '
             'the libc model (malloc never fails, fixed getrandom bytes, single thread), z3 (sample re-decided by a second z3 build). '
             'Verdicts hold within the stated structural bounds only; see evidence coverage.bounds / outside_claim.')

CLAIMED = {
 'C01': dict(
    text='Partial claim, bounded symbolic model checking through the whole real pipeline: 21 accepted program templates (sums, differences and comparisons of mixed units, the dimension-polymorphic literals 0 / inf / NaN on either side of +, -, comparisons and conditionals, generic functions with a Dim bound, products, quotients, literal integer and rational powers of units, conversions, where-clauses, struct fields) run in a real session with every magnitude a symbolic double; on every feasible path evaluation must not fail with a unit-incompatibility error nor with anything but the documented value-dependent errors, and the run-time unit of the result must have the dimension the template\'s static type has. A second, structural kernel (thorough tier only so far; the quick tier runs the templates) makes the program itself symbolic at the token level: the real parser runs on symbolic token kinds (37-kind expression alphabet, every sequence up to 3 tokens (thorough: 4) plus templates with a symbolic operator; names: a function Length -> Time, a generic identity, a Length variable, the units meter and second), and every expression the checker accepts is evaluated through Context::interpret: its value must carry the dimension the CHECKER reported for it, and a run-time failure must be a documented value-dependent error. The defect named in the property text (computed non-integer exponents) is outside this claim and NOT found; one genuine defect class (polymorphic inf / NaN literals) is a known finding.',
    design_ref='DESIGN.md §4 C01', technique='symbolic execution of LLVM IR (whole interpreter pipeline) + SMT (z3 QF_FPBV), native replay'),
 'C03': dict(
    text='Bounded symbolic model checking of the compiled arithmetic path (VM Add/Subtract/Multiply/Divide/Power opcodes, unit products, transitive base-unit factors, prefix factors): for each selected (operator, unit, unit) triple over prefixed standard-library units and all doubles a, b the result has exactly the dimension vector that dimensional analysis of the unit definitions gives, NaN propagates, finite operands never yield NaN, signs and the zero shortcuts follow the operands, nothing panics, and the base-unit value for magnitudes 1 agrees (32 ulp) with exact rational arithmetic on the definition trees computed independently by the plan.',
    design_ref='DESIGN.md §4 C03', technique='symbolic execution of LLVM IR + SMT (z3 QF_FPBV) with sound FP abstraction; exact-rational reference'),
 'C05': dict(
    text='Bounded symbolic model checking through the whole real pipeline: in a session that defines the units of the case and a set of candidate derived units from their catalog definitions, `a * (E)` is interpreted for compound unit expressions E with a symbolic double a; the displayed (simplified) result must keep the dimension (a zero may be shown as the polymorphic 0), keep NaN / zero / sign, convert back structurally to the unit of the unsimplified computation, and reproduce the magnitude of 1·E; a value given a unit by an explicit `->` must come back in exactly that unit, unsimplified, directly and after being bound to a variable.',
    design_ref='DESIGN.md §4 C05', technique='symbolic execution of LLVM IR (whole interpreter pipeline) + SMT (z3 QF_FPBV), native replay'),
 'C04': dict(
    text='Bounded symbolic model checking of the compiled conversion path (VM ConvertTo opcode, Quantity::convert_to with its common-factor cancellation, no_simplify / conversion-target marker): for each selected ordered pair of same-dimension units (with prefixes, with a numeric multiple on the target side) and all doubles a: the result is structurally in the requested unit, is marked not-to-be-simplified, carries the requested target as display multiple exactly when its magnitude is not 1, preserves NaN / zero / infinity / sign, is idempotent and the identity on its own unit bit for bit; a second conversion to the plain unit drops the multiple marker; every power of two scales exactly; and the conversion of 1 (also through an intermediate unit, and back) agrees with the factor computed from the unit definitions by exact rational arithmetic in the plan.',
    design_ref='DESIGN.md §4 C04', technique='symbolic execution of LLVM IR + SMT (z3 QF_FPBV) with sound FP abstraction; exact-rational reference for the factor'),
 'C08': dict(
    text='Bounded symbolic model checking of kernels of the pipeline in a checked build (overflow checks and debug assertions on), every finding confirmed through the public API: (1) the bytecode compiler + VM on `x!…!` with the number of "!" symbolic (1..2^20) against a reference multifactorial: no panic, no budget overrun, the written order is used; (2) run-time unit exponent arithmetic (Unit::power, multiplication + canonicalisation) and (3) the checker\'s dimension exponent arithmetic (DType::try_* must not panic; the unchecked variants) with symbolic exponents up to 2^126. A kernel finding is reported only if the same inputs submitted as source text to Context::interpret abort, hang or misbehave natively; two genuine overflow defects are listed as known findings. The exponent kernels are bounded explorations (bug hunting), stated as such.',
    design_ref='DESIGN.md §4 C08', technique='symbolic execution of LLVM IR + SMT (z3 QF_BV/QF_FPBV) on kernels, public-API replay of every model'),
 'C09': dict(
    text='Bounded symbolic model checking through the whole real pipeline: 23 program templates (shadowed globals read from functions and where-clauses, parameters shadowing globals, where-clause locals, argument order, nested conditionals, negated comparisons, && / || / !, bounded recursion, function values, reverse application, struct field order and nested access, list head/tail/cons/len, string interpolation order, division by zero) are interpreted by a real session with every scalar literal a symbolic double injected through the __verif_sym hook; on every feasible path the produced value must equal, bit for bit, the value of a reference evaluator that applies the language rules to the template directly. The solver explores every branch combination of the compiled bytecode (jump patching, local/global slot selection, call frames, struct/list/string construction) for all values, including NaN, infinities and signed zeros.',
    design_ref='DESIGN.md §4 C09', technique='symbolic execution of LLVM IR (whole interpreter pipeline) + SMT (z3 QF_FPBV), reference-evaluator differential, native replay'),
 'C10': dict(
    text='Bounded symbolic model checking of the compiled parser: Parser::parse runs on token streams whose token kinds are symbolic (37-kind expression alphabet), next to an independent table-driven reference parser transcribed from the documented precedence table; on every feasible path either both reject the sequence or the two syntax trees are structurally identical. Exhaustive over all sequences up to the stated length, plus longer templates (three- and four-operand expressions, conditionals, unary/postfix combinations, parentheses, calls) whose operator positions are symbolic over all 23 operators. A second kernel runs the real tokenizer and parser on hexadecimal / octal / binary literals whose digits are symbolic within a character class per position (up to 32 / 43 / 128 digits): the literal evaluates to the double nearest to the integer its digits spell, separators are ignored, and a literal of 128 bits is rejected rather than wrapped. All-sequences-within-a-bound is the right level because a precedence or associativity slip shows only for a particular pair of operators in a particular arrangement.',
    design_ref='DESIGN.md §4 C10', technique='symbolic execution of LLVM IR + SMT (z3 QF_BV), replay-mode path exploration, reference-parser differential'),
 'C14': dict(
    text='Partial claim (integer branch; magnitudes below a bound plus windows around 2^31, 2^32, 2^53 and powers of ten), bounded symbolic model checking of the compiled code: Number::pretty_print_with (integer branch: is_integer test, conversion to i64, num_format digit extraction and grouping) runs on a symbolic integer-valued double with concrete separator / threshold settings; on every feasible path the text consists of an optional minus and digits with separators only between groups of three, reading the digits back gives exactly |x| (all digits are shown), the sign is shown, and grouping is used exactly from the configured threshold on. The floating-point branch is outside reach.',
    design_ref='DESIGN.md §0a / §4 C14', technique='symbolic execution of LLVM IR + SMT (z3 QF_FPBV/QF_BV), replay-mode path exploration'),
 'C15': dict(
    text='Partial claim (expression statements and string literals), bounded symbolic model checking of the compiled code. (a) Expressions: the real parser runs on token streams whose kinds are symbolic (37-kind alphabet; every sequence up to the stated length and templates with symbolic operator positions); for every sequence it accepts, the source text goes through the whole pipeline (Context::interpret in a session with x = 3), the typed statement is pretty-printed, and the echo is interpreted again in the same session: it must be accepted, have the same type scheme, evaluate to the bit-identical value, and echo to the same text; a panic anywhere is a violation. (b) String literals: for every string over the 14 characters that the escaping and unescaping code distinguishes (quote, backslash, braces, the escape letters, control characters, ordinary characters) up to the stated length, the echoed literal — quote + escape_numbat_string(s) + quote — is tokenized by the real tokenizer as one plain string token and parsed by the real parser back to exactly s, and echoing the re-read string reproduces the same text. The decorator echo defect named in the property text is a single concrete input outside this kernel and is NOT found.',
    design_ref='DESIGN.md §0a / §4 C15', technique='symbolic execution of LLVM IR + SMT (z3 QF_BV), replay-mode path exploration'),
 'C18': dict(
    text='Bounded symbolic model checking of the compiled list.rs: (a) one inductive step — from every representation state satisfying the invariant (view absent or (s,e) with s<=e==alloc.len(); allocation length up to the bound, ring buffer rotated or not, sole owner or sharing with a second handle with/without a view) each of the 9 public operations, chosen symbolically with symbolic element values, must leave the operated handle with exactly the elements of a plain sequence model, leave the other handle unchanged and re-establish the invariant; because the post-state satisfies the invariant the step composes to histories of any length; (b) every history of k operations over three handles from new() through the public API only, which also shows the reachable states satisfy the assumed invariant.',
    design_ref='DESIGN.md §4 C18', technique='symbolic execution of LLVM IR + SMT (z3 QF_BV): inductive step over symbolic representation states + bounded histories'),
 'C21': dict(
    text='Bounded symbolic model checking through the whole real pipeline: programs assert(a<b), assert_eq(a u1, b u2), assert_eq(a u1, b u2, eps u3), each followed by print and a definition, are interpreted by a real session (tokenizer, parser, type checker, compiler, VM, ffi procedures) whose prelude defines the case\'s units from the catalog; a, b, eps are symbolic doubles injected through the __verif_sym hook. On every feasible path the outcome (success / AssertFailed / AssertEq2Failed / AssertEq3Failed) must agree with the documented predicate evaluated by a reference in the harness, and after a failure no later statement may have run (nothing printed, marker undefined).',
    design_ref='DESIGN.md §4 C21', technique='symbolic execution of LLVM IR (whole interpreter pipeline) + SMT (z3 QF_FPBV), native replay'),
 'C20': dict(
    text='Bounded symbolic model checking of the compiled code: HtmlWriter (write_all in two writes at every split point, every colour state) and HtmlFormatter::format (every FormatType) are executed on texts whose bytes are symbolic ASCII values; on every feasible path the output must equal the renderer\'s own span wrapper around the escaped input and contain no other `<` / `>`. Exhaustive over all ASCII strings up to the stated length, which is the right level because escaping is per byte and the defect class is one unescaped metacharacter at one position or a wrong byte count returned to write_all.',
    design_ref='DESIGN.md §4 C20', technique='symbolic execution of LLVM IR + SMT (z3 QF_BV), replay-mode path exploration, native replay'),
 'C12': dict(
    text='Bounded symbolic model checking of the compiled code: for each selected pair of same-dimension units the real VM Add/Subtract opcodes (impl Add/Sub for &Quantity, smaller_unit, convert_to, zero shortcuts) are executed symbolically for a+b, b+a, a-b, b-a with both magnitudes ranging over all doubles; when the units differ in size and not both operands are zero the two orders must give bit-identical magnitudes and structurally identical units (negated for subtraction); otherwise they must denote the same quantity. Each clause is discharged by the solver on every feasible path or refuted with a natively replayed model.',
    design_ref='DESIGN.md §4 C12', technique='symbolic execution of LLVM IR + SMT (z3 QF_FPBV), native replay'),
 'C11': dict(
    text='Bounded symbolic model checking of the compiled code: for each selected pair of same-dimension standard-library units (with prefixes) the real VM comparison opcodes and Quantity::eq are executed symbolically with both magnitudes ranging over all 2^64 double bit patterns; every feasible path is explored and each of the property\'s clauses (== symmetric, < mirrors >, <= mirrors >=, != negates ==, trichotomy for non-NaN, NaN makes orderings false) is discharged by the solver or refuted with a model that is replayed against the native build. All-values-within-a-pair is the right level because the defect class is a rounding coincidence between two conversion directions that sampling does not hit.',
    design_ref='DESIGN.md §4 C11', technique='symbolic execution of LLVM IR + SMT (z3 QF_FPBV), native replay'),
 'C23': dict(
    text='Partial claim (temperature scales), bounded symbolic model checking through the whole real pipeline: the real module physics::temperature_conversion is imported into a real session; for a symbolic double x with |x| <= 10^6 the programs celsius(from_celsius(x)) and from_celsius(celsius(x kelvin)), also with the temperature written in millikelvin (thorough tier: the Fahrenheit pair and further prefixes as well) are interpreted, and the solver proves the round trip restores x within 1e-9 (1e-8) on every feasible path. This is a floating-point tolerance claim that is decidable because the Celsius pair only adds and subtracts a constant.',
    design_ref='DESIGN.md §0a / §4 C23', technique='symbolic execution of LLVM IR (whole interpreter pipeline) + SMT (z3 QF_FP), native replay'),
 'C06': dict(
    text='Partial claim (successful statements followed by a failing expression statement in the same input), bounded symbolic model checking through the whole real pipeline: an input consists of concrete successful statements (nine families: a variable; a redefinition of an existing function; a derived unit; a new dimension with a unit; a variable shadowing an existing one; a struct; expression statements only, with the last result ans / _ probed; the import of a real standard-library module, which must be importable again with the same effect; the import of a module that does not exist) followed by an expression statement whose token kinds are symbolic (37-kind alphabet; every sequence up to the stated length, and templates around run-time failures — division by zero, factorial of a negative number — with symbolic operators). Whenever Context::interpret rejects the input — parse error, unknown name, type error or run-time error — every probe expression must give the same value or the same class of error as before the input, and re-submitting the successful definitions followed by the probes must behave exactly as in a twin session that never saw the failing input. The module-import family found the defect named in the property text on the unchanged tree (a failed input kept its imports; fixed by 4939d62).',
    design_ref='DESIGN.md §0a C06', technique='symbolic execution of LLVM IR (whole interpreter pipeline) over symbolic token kinds + SMT (z3 QF_BV), twin-session differential, native replay'),
 'C07': dict(
    text='Partial claim (definitions followed by one expression statement; submission as two inputs vs one joined input; a copy taken before), bounded symbolic model checking through the whole real pipeline: for six families of concrete definitions (and one of expression statements only, in which the expression reads the last result ans in a session that already holds one) and an expression statement whose token kinds are symbolic (37-kind alphabet; every accepted sequence up to the stated length, plus templates with symbolic operators), session A receives definitions and expression as two inputs, session B as one joined input; whenever both inputs of A succeed, B must succeed with the same type and the bit-identical value, all probe expressions must agree between A and B afterwards, and a copy of A taken before the inputs must answer the probes exactly as an untouched session does. Replaying saved history, printed output and imports are outside this kernel.',
    design_ref='DESIGN.md §0a C07', technique='symbolic execution of LLVM IR (whole interpreter pipeline) over symbolic token kinds + SMT (z3 QF_BV), two-session differential, native replay'),
 'C16': dict(
    text='Partial claim (two-parameter functions whose bodies are operator expressions), bounded symbolic model checking through the whole real pipeline: the body\'s token kinds are symbolic (37-kind expression alphabet; every sequence up to the stated length that the real parser accepts, and longer templates — sums, products, quotients, integer powers, comparisons, conditionals, parentheses — with symbolic operator positions); `fn g(a, b) = body` is interpreted without annotations in a session with two base dimensions; if the checker accepts it, the statement it echoes (the inferred signature spelled out, generic parameters with their Dim bounds) is interpreted as a re-declaration and must be accepted and echo the same signature, and each of five call sites (scalars, one unit, the same unit twice, two units, a square) must be accepted or rejected identically, with the same type and the bit-identical value, before and after. Structure is enumerated by the solver exploring the parser; nothing here is a floating-point claim.',
    design_ref='DESIGN.md §0a C16', technique='symbolic execution of LLVM IR (whole interpreter pipeline) over symbolic token kinds + SMT (z3 QF_BV), replay-mode path exploration, native replay'),
 'C02': dict(
    text='Partial claim (expression statements; the constraint solver), bounded symbolic model checking of the compiled code. (1) Accept kernel through the whole real pipeline: the token kinds of an expression statement are symbolic (37-kind alphabet; every sequence of up to 3 tokens (thorough: 4) that the real parser accepts, plus templates with a symbolic operator position: sums, products, powers with constant exponent expressions, comparisons, conditionals, lists, calls of a function Length -> Time and of a generic identity, reverse application); a reference written from the property text (ordinary dimensional analysis: exponent vectors over Length and Time with exact rationals, on the dimensions DECLARED for the names) decides consistent / inconsistent / outside-the-reference for the real syntax tree; Context::interpret must reject exactly the inconsistent ones with a type error, the type it reports for an accepted expression must equal the reference dimension, and a rejected input (which also contains a definition and a print statement before the expression) must print nothing and define nothing. (2) Constraint solver: ConstraintSet::solve (Constraint::try_satisfy, DType::from_factors / divide / multiply / power with their canonicalisation, Substitution::apply) runs on dimension equations over two type variables and two base dimensions whose exponents are symbolic integers in [-3, 3]; on every feasible path the solver must accept exactly the systems that are consistent over the rationals (decided by an integer determinant / minor oracle), and the returned substitution must make both sides of every equation the same dimension. Definitions, annotations, user generics, structs and the polymorphic literals are outside the accept kernel.',
    design_ref='DESIGN.md §0a / §4 C02', technique='symbolic execution of LLVM IR (whole interpreter pipeline over symbolic token kinds; constraint-solver kernel) + SMT (z3 QF_BV), replay-mode path exploration, reference dimensional analysis and linear-algebra oracles, native replay'),
}

NOT_APPLICABLE = {
 'C13': 'finite alias x prefix table: exhaustive enumeration is the tool; a solver would need symbolic identifiers through IndexMap hashing or a hand model of PrefixParser::parse instead of the code',
 'C17': 'finite set of module orders with no symbolic value; exhaustive enumeration is the tool',
 'C19': 'date-time arithmetic lives in jiff (calendar and time-zone tables) behind VM opcodes that need a DateTime on the stack; no kernel was built, so nothing is claimed',
 'C22': 'process-level I/O and exit status of the CLI binary; behind I/O and whole-program execution',
 'C24': 'finite list of concrete snippets; executing them is a test, not a solver query',
}

def main():
    props = [json.loads(l) for l in open(os.path.join(VERIF, 'properties.jsonl'))]
    checks = []
    for p in props:
        pid = p['id']
        if pid in CLAIMED:
            c = CLAIMED[pid]
            checks.append({
                'property_id': pid,
                'quick_cmd': './check %s --tier quick' % pid,
                'thorough_cmd': './check %s --tier thorough' % pid,
                'evidence_file': 'evidence/%s.json' % pid,
                'replay_cmd_template': './check %s --replay {path}' % pid,
                'engine': c.get('engine', 'llse'),
                'level_claimed': {'category': c.get('category', 'model_checking'), 'text': c['text'], 'design_ref': c['design_ref']},
                'level_note': c.get('note', LLSE_NOTE),
                'technique': c['technique'],
            })
    na = []
    for p in props:
        pid = p['id']
        if pid not in CLAIMED:
            na.append({'property_id': pid, 'reason': NOT_APPLICABLE.get(pid, 'no solver-based check built (yet) for this property in this framework; see DESIGN.md §5')})
    m = {
        'version': 1,
        'setup_cmd': './setup.sh',
        'hooks': {
            'guard': 'cargo feature verif-hooks of the numbat crate (off by default)',
            'enable': 'harness crate depends on numbat = { path = "/repo/numbat", default-features = false, features = ["verif-hooks", "html-formatter"] }',
            'baseline_off_cmd': 'cd /repo && cargo test --workspace --no-fail-fast --offline',
            'source_commits': HOOK_COMMITS,
            'add_only': True,
        },
        'engines': [
            {'name': 'llse', 'path': 'llse/', 'serves_properties': sorted(k for k, v in CLAIMED.items() if v.get('engine', 'llse') == 'llse'),
             'kind_free_text': 'symbolic executor for the LTO-merged LLVM IR of the harness crate (numbat + deps + std), concrete heap, symbolic scalars, z3; process-fork state forking; native replay'},
        ],
        'checks': checks,
        'not_applicable': na,
        'notes': 'Solver-based checking of the real code. Exit status of every check: 0 held within bounds, 1 VIOLATION (model replayed natively), 2 machinery problem (no verdict).',
    }
    json.dump(m, open(os.path.join(VERIF, 'MANIFEST.json'), 'w'), indent=1)

HOOK_COMMITS = []
if __name__ == '__main__':
    import subprocess
    out = subprocess.run(['git', '-C', '/repo', 'log', '--format=%h %s'], stdout=subprocess.PIPE, text=True).stdout
    HOOK_COMMITS = [l.split(' ')[0] for l in out.splitlines() if l.split(' ', 1)[1].startswith('verif hooks')]
    main()
