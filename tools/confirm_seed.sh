#!/bin/bash
# confirm_seed.sh <incoming-dir-name>   e.g. C18-a
# Confirms each patchN.diff of /verif/seeded/_incoming/<name> in a scratch worktree of /repo:
#   demo passes without the patch; with the patch: builds, full test suite passes, demo fails.
# Writes /verif/seeded/_incoming/<name>/confirm.json ; removes the worktree afterwards.
set -u
NAME="$1"; IN=/verif/seeded/_incoming/$NAME; WT=/tmp/confirm/$NAME
mkdir -p /tmp/confirm; git -C /repo worktree remove --force "$WT" 2>/dev/null; rm -rf "$WT"
git -C /repo worktree add -q --detach "$WT" HEAD || exit 2
cp -r "$IN" "$WT/_seed"
cd "$WT"
export CARGO_TARGET_DIR="$WT/target" CARGO_NET_OFFLINE=true
sed -i "s#/tmp/seed/$NAME/target#$WT/target#g; s#/tmp/seed/$NAME#$WT#g" _seed/*.cmd _seed/*.sh 2>/dev/null
echo "{" > "$IN/confirm.json"
for N in 1 2; do
  [ -f _seed/patch$N.diff ] || continue
  git checkout -q -- . ; git clean -fdq numbat/tests 2>/dev/null
  bash _seed/demo$N.cmd > _seed/confirm_demo${N}_clean.log 2>&1; RC_CLEAN=$?
  rm -f numbat/tests/seed_*.rs
  if git apply _seed/patch$N.diff; then APPLY=0; else APPLY=1; fi
  nice cargo build --offline -j6 -p numbat > _seed/confirm_build$N.log 2>&1; RC_BUILD=$?
  nice cargo test --workspace --no-fail-fast --offline -j6 > _seed/confirm_test$N.log 2>&1; RC_TEST=$?
  NFAIL=$(grep -c "^test .* FAILED" _seed/confirm_test$N.log)
  NPASS=$(grep "^test result" _seed/confirm_test$N.log | sed 's/.*ok\. \([0-9]*\) passed.*/\1/' | paste -sd+ | bc)
  bash _seed/demo$N.cmd > _seed/confirm_demo${N}_patched.log 2>&1; RC_PATCHED=$?
  git checkout -q -- . ; rm -f numbat/tests/seed_*.rs
  echo " \"patch$N\": {\"applies\": $APPLY, \"demo_clean_rc\": $RC_CLEAN, \"build_rc\": $RC_BUILD, \"suite_rc\": $RC_TEST, \"suite_failed\": $NFAIL, \"suite_passed\": ${NPASS:-0}, \"demo_patched_rc\": $RC_PATCHED}," >> "$IN/confirm.json"
  cp _seed/confirm_demo${N}_clean.log _seed/confirm_demo${N}_patched.log "$IN/" 2>/dev/null; grep -E "FAILED|panicked|failed" _seed/confirm_test$N.log | head -20 > "$IN/confirm_test${N}_failures.txt"
done
echo " \"head\": \"$(git -C /repo rev-parse --short HEAD)\"" >> "$IN/confirm.json"; echo "}" >> "$IN/confirm.json"
cd /; git -C /repo worktree remove --force "$WT"; rm -rf "$WT"
cat "$IN/confirm.json"
