#!/usr/bin/env python3
"""Moves confirmed seeds from seeded/_incoming/<X>/ to seeded/<PROP>-<n>/ with patch.diff, demo files and meta.json."""
import json, os, shutil, glob, re
ROOT = '/verif/seeded'
DETECT = {  # (incoming dir, patch number) -> (detected, by which check / assertion, note)
 ('C04-a', 1): (True, 'C04 h_c04_convert: second-conversion-to-plain-unit-displays-plain-unit', ''),
 ('C04-a', 2): (True, 'C04 h_c04_convert: conversion-factor-agrees-with-unit-definitions (footcandle -> lux; exact-rational reference)', ''),
 ('C10-a', 1): (True, 'C10 h_c10_parse: tree-follows-documented-precedence (template if x then x else x o x, o = |>)', ''),
 ('C10-a', 2): (True, 'C10 h_c08_tokenizer: operator-spellings-map-to-documented-tokens (U+2212 followed by ">")', 'missed by the first version of the check (token-kind level only); caught after the tokenizer kernel with its spelling reference was added'),
 ('C11-a', 1): (True, 'C11 h_c11_vm: eq-symmetric on equal-size pairs of distinct units with a non-power-of-two factor (mGy/mSv, imperial_fluid_drachm/imperial_teaspoon)', 'missed by the first plan (only factor-1 equal-size pairs); caught after equal-size pairs from the catalog and prefixed variants were added'),
 ('C11-a', 2): (True, 'C11 h_c11_vm: trichotomy', ''),
 ('C12-a', 1): (True, 'C12 h_c12_api: add-same-unit on 10^24*metre vs 10^21*metre', 'missed at first: the harness decided "units differ in size" with numbat\'s own (patched) prefix factors; caught after the plan computed sizes from the definition trees with exact rational arithmetic and pairs of two different prefixes of one unit were added'),
 ('C12-a', 2): (True, 'C12 h_c12_api: add-same-unit on 10^-18*second vs 10^-21*second', 'same strengthening as C12 seed 1'),
 ('C18-a', 1): (True, 'C18 h_c18_step: operated-list-holds-expected-elements / invariant (sole owner, view (0,n), push_front)', ''),
 ('C18-a', 2): (True, 'C18 h_c18_step: len-is-number-of-elements (sole owner with view (s>0, n), tail)', ''),
 ('C21-a', 1): (True, 'C21 h_c21_eq3: assert_eq3-succeeds-only-if-within-eps (NaN)', ''),
 ('C21-a', 2): (True, 'C21 h_c21_eq3: assert_eq3-fails-only-if-outside-eps / succeeds-only-if-within-eps', ''),
 ('C09-a', 1): (True, 'C09 h_c09_prog: value-equals-source-semantics (templates shadow-global-in-fn / shadow-global-in-where)', ''),
 ('C09-a', 2): (True, 'C09 h_c09_prog: value-equals-source-semantics (templates negated-comparison*, NaN operand found by the solver)', ''),
 ('C05-a', 1): (True, 'C05 h_c05_simplify: simplification-preserves-magnitude (nN*nm, pN*pm)', 'the cases with small prefixes were added after reading the seed report'),
 ('C05-a', 2): (True, 'C05 h_c05_simplify: explicitly-converted-value-keeps-its-unit (m^2 -> N/Pa, C/A)', 'the compound targets equal to one base unit were added after reading the seed report'),
 ('C03-a', 1): (True, 'C03 h_c03_arith: panic (shift overflow in Prefix::factor for 2^70 / 2^80 prefixes)', 'first reported as a machinery problem (exit 2); panics now count as violations'),
 ('C03-a', 2): (True, 'C03 h_c03_arith: value-agrees-with-unit-definitions ((-1)^4294967296)', ''),
 ('C01-a', 1): (False, 'not detected', 'the change widens which literal TEXTS the checker treats as dimension-polymorphic (subnormal literals); literals are fixed per template in the C01 check and symbolic magnitudes enter through a Scalar-typed hook, so no template exercises it. Stated as outside the claim.'),
 ('C01-a', 2): (True, 'C01 h_c01_sound: no-unit-incompatibility-at-run-time (template sub-polymorphic-zero-right)', ''),
 ('C08-b', 1): (False, 'not detected', 'overflow in suggestion::did_you_mean for an unknown identifier containing a character whose lowercase form is shorter in UTF-8: needs symbolic identifier text (keyword hash map) — outside the C08 kernels'),
 ('C08-b', 2): (True, 'C08 h_c19_add: panic, confirmed through Context::interpret (date-time plus a duration of about 2e4 years)', 'missed by the first version of C08 (no kernel drove the date-time opcodes); caught after the date-time kernel was added'),
 ('C20-b', 1): (True, 'C20 h_c20_writer: no-user-controlled-tag-open (colour state blue)', ''),
 ('C20-b', 2): (True, 'C20 h_c20_format: no-user-controlled-tag-close (FormatType Keyword / Decorator / Unit)', ''),
 ('C15-a', 1): (True, 'C15 h_c15_string: echoed-string-reads-back-as-the-same-string (backslash directly before a brace)', ''),
 ('C15-a', 2): (False, 'not detected', 'parenthesisation of factorial operands in the expression printer ((3!)! echoed as 3!!): program structure, outside the string-literal kernel that C15 claims'),
 ('C18-b', 1): (True, 'C18 h_c18_step: operated-list-holds-expected-elements (sole owner, fully consumed view, push)', ''),
 ('C18-b', 2): (True, 'C18 h_c18_step: head-is-first-element (sole owner with view start > 0)', ''),
 ('C10-b', 1): (True, 'C10 h_c10_parse: input-in-grammar-is-accepted (+ - x)', ''),
 ('C10-b', 2): (False, 'not detected', 'double rounding of hex/octal/binary literals above 2^53: numeric values of literals are outside the C10 kernels (every Number token is the literal 1; integer-with-base tokens are not in the alphabet)'),
 ('C03-b', 1): (True, 'C04 h_c04_convert: conversion-factor-agrees-with-unit-definitions on the compound pair kB/Mbit -> MB/kbit', 'missed by C03 and by the first C04 plan (single units only); caught after compound units (products / quotients / powers with metric and binary prefixes) were added to the C04 plan'),
 ('C03-b', 2): (True, 'C03 h_c03_arith: arithmetic-on-compatible-units-succeeds / zero shortcuts (subnormal operand treated as zero)', ''),
 ('C04-b', 1): (True, 'C04 h_c04_convert: magnitude-grows/shrinks-when-converting (subnormal magnitude returned unscaled)', 'missed at first; caught after the bit-exact ordering claim |conv(a)| > |a| (factor >= 4) / < |a| (factor <= 1/4) was added — the solver proves it for all doubles on the unchanged tree'),
 ('C04-b', 2): (True, 'C04 h_c04_convert: conversion-factor-agrees-with-unit-definitions on s/KiB -> s/B and KiB^2 -> B^2', 'missed at first (single units only); caught after compound units were added to the C04 plan'),
 ('C12-b', 1): (True, 'C12 h_c12_api: add-same-quantity / sub-negated-quantity / add-same-unit (subnormal operands)', ''),
 ('C12-b', 2): (True, 'C12 h_c12_api: add-same-unit (inf / NaN / subnormal right operand)', ''),
 ('C09-b', 1): (True, 'C09 h_c09_prog: panic in templates builtin-via-function-value / builtin-via-fn-parameter', 'missed by the first template list; caught after templates calling an asymmetric builtin (cons, cons_end) through a function value were added'),
 ('C09-b', 2): (True, 'C09 h_c09_prog: value-equals-source-semantics (template struct-literal-direct-access)', 'missed by the first template list; caught after the template was added'),
 ('C21-b', 1): (True, 'C21 h_c21_eq2: assert_eq2-fails-only-if-different-in-rhs-unit (both operands +inf)', ''),
 ('C21-b', 2): (True, 'C21 h_c21_eq3: assert_eq3-succeeds-only-if-within-eps (equal operands, NaN / negative eps)', ''),
}
props = {json.loads(l)['id']: json.loads(l) for l in open('/verif/properties.jsonl')}
count = {}
for inc in sorted(os.listdir(os.path.join(ROOT, '_incoming'))):
    d = os.path.join(ROOT, '_incoming', inc)
    cj = os.path.join(d, 'confirm.json')
    if not os.path.exists(cj): continue
    conf = json.load(open(cj))
    pid = inc.split('-')[0]
    notes = open(os.path.join(d, 'notes.md')).read() if os.path.exists(os.path.join(d, 'notes.md')) else ''
    for n in (1, 2):
        c = conf.get('patch%d' % n)
        if not c: continue
        plog = os.path.join(d, 'confirm_demo%d_patched.log' % n)
        ptxt = open(plog, errors='replace').read() if os.path.exists(plog) else ''
        clog = os.path.join(d, 'confirm_demo%d_clean.log' % n)
        ctxt = open(clog, errors='replace').read() if os.path.exists(clog) else ''
        fails_with = c['demo_patched_rc'] != 0 or 'test result: FAILED' in ptxt or 'panicked' in ptxt
        passes_without = c['demo_clean_rc'] == 0 and 'test result: FAILED' not in ctxt
        ok = c['applies'] == 0 and c['build_rc'] == 0 and c['suite_rc'] == 0 and c['suite_failed'] == 0 and fails_with and passes_without
        if not ok:
            print('NOT CONFIRMED', inc, n, c); continue
        count[pid] = count.get(pid, 0) + 1
        out = os.path.join(ROOT, '%s-%d' % (pid, count[pid]))
        shutil.rmtree(out, ignore_errors=True); os.makedirs(out)
        shutil.copy(os.path.join(d, 'patch%d.diff' % n), os.path.join(out, 'patch.diff'))
        for f in glob.glob(os.path.join(d, 'demo%d*' % n)):
            if not f.endswith('.log') and not f.endswith('.out') and 'output' not in f: shutil.copy(f, out)
        det = DETECT.get((inc, n), (None, 'not yet run', ''))
        meta = {
            'property': pid, 'title': props[pid]['title'], 'origin': 'written by an independent sub-agent given only the property text and a scratch worktree (%s, patch %d)' % (inc, n),
            'needs_to_manifest': re.sub(r'\s+', ' ', notes)[:0] or 'see notes.md (section for patch %d)' % n,
            'confirmed_by_me': {'worktree_head': conf.get('head'), 'applies_cleanly': True, 'builds': True, 'existing_suite': '%d passed, 0 failed' % c['suite_passed'],
                                'demo_without_patch': 'passes (rc %d)' % c['demo_clean_rc'], 'demo_with_patch': 'fails (rc %d%s)' % (c['demo_patched_rc'], '; a test of the demo reports FAILED' if 'test result: FAILED' in ptxt else ''),
                                'ran': 'tools/confirm_seed.sh %s' % inc},
            'detected_by_checks': det[0], 'detected_how': det[1], 'remark': det[2],
        }
        json.dump(meta, open(os.path.join(out, 'meta.json'), 'w'), indent=1)
        open(os.path.join(out, 'notes.md'), 'w').write(notes)
        print('ok', out, det[0])
