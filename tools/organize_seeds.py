#!/usr/bin/env python3
"""Moves confirmed seeds from seeded/_incoming/<X>/ to seeded/<PROP>-<n>/ with patch.diff, demo files and meta.json."""
import json, os, shutil, glob, re
ROOT = '/verif/seeded'
DETECT = {  # (incoming dir, patch number) -> (detected, by which check / assertion, note)
 ('C04-a', 1): (True, 'C04 h_c04_convert: second-conversion-to-plain-unit-displays-plain-unit', ''),
 ('C04-a', 2): (True, 'C04 h_c04_convert: conversion-factor-agrees-with-unit-definitions (footcandle -> lux; exact-rational reference)', ''),
 ('C10-a', 1): (True, 'C10 h_c10_parse: tree-follows-documented-precedence (template if x then x else x o x, o = |>)', ''),
 ('C10-a', 2): (True, 'C10 h_c08_tokenizer: operator-spellings-map-to-documented-tokens (U+2212 followed by ">")', 'missed by the first version of the check (token-kind level only); caught after the tokenizer kernel with its spelling reference was added'),
 ('C11-a', 1): (True, 'C11 h_c11_vm: eq-symmetric on equal-size pairs of distinct units with a non-power-of-two factor (mGy/mSv, imperial_fluid_drachm/imperial_teaspoon)', 'missed by the first plan (only factor-1 equal-size pairs); caught after equal-size pairs from the catalog and prefixed variants were added'),
 ('C11-a', 2): (True, 'C11 h_c11_vm: trichotomy', ''),
 ('C12-a', 1): (True, 'C12 h_c12_api: add-same-unit on 10^24*metre vs 10^21*metre', 'missed at first: the harness decided "units differ in size" with numbat\'s own (patched) prefix factors; caught after the plan computed sizes from the definition trees with exact rational arithmetic and pairs of two different prefixes of one unit were added'),
 ('C12-a', 2): (True, 'C12 h_c12_api: add-same-unit on 10^-18*second vs 10^-21*second', 'same strengthening as C12 seed 1'),
 ('C18-a', 1): (True, 'C18 h_c18_step: operated-list-holds-expected-elements / invariant (sole owner, view (0,n), push_front)', ''),
 ('C18-a', 2): (True, 'C18 h_c18_step: len-is-number-of-elements (sole owner with view (s>0, n), tail)', ''),
 ('C21-a', 1): (True, 'C21 h_c21_eq3: assert_eq3-succeeds-only-if-within-eps (NaN)', ''),
 ('C21-a', 2): (True, 'C21 h_c21_eq3: assert_eq3-fails-only-if-outside-eps / succeeds-only-if-within-eps', ''),
 ('C09-a', 1): (True, 'C09 h_c09_prog: value-equals-source-semantics (templates shadow-global-in-fn / shadow-global-in-where)', ''),
 ('C09-a', 2): (True, 'C09 h_c09_prog: value-equals-source-semantics (templates negated-comparison*, NaN operand found by the solver)', ''),
 ('C05-a', 1): (True, 'C05 h_c05_simplify: simplification-preserves-magnitude (nN*nm, pN*pm)', 'the cases with small prefixes were added after reading the seed report'),
 ('C05-a', 2): (True, 'C05 h_c05_simplify: explicitly-converted-value-keeps-its-unit (m^2 -> N/Pa, C/A)', 'the compound targets equal to one base unit were added after reading the seed report'),
 ('C03-a', 1): (True, 'C03 h_c03_arith: panic (shift overflow in Prefix::factor for 2^70 / 2^80 prefixes)', 'first reported as a machinery problem (exit 2); panics now count as violations'),
 ('C03-a', 2): (True, 'C03 h_c03_arith: value-agrees-with-unit-definitions ((-1)^4294967296)', ''),
 ('C01-a', 1): (False, 'not detected', 'the change widens which literal TEXTS the checker treats as dimension-polymorphic (subnormal literals); literals are fixed per template in the C01 check and symbolic magnitudes enter through a Scalar-typed hook, so no template exercises it. Stated as outside the claim.'),
 ('C01-a', 2): (True, 'C01 h_c01_sound: no-unit-incompatibility-at-run-time (template sub-polymorphic-zero-right)', ''),
 ('C08-b', 1): (False, 'not detected', 'overflow in suggestion::did_you_mean for an unknown identifier containing a character whose lowercase form is shorter in UTF-8: needs symbolic identifier text (keyword hash map) — outside the C08 kernels'),
 ('C08-b', 2): (True, 'C08 h_c19_add: panic, confirmed through Context::interpret (date-time plus a duration of about 2e4 years)', 'missed by the first version of C08 (no kernel drove the date-time opcodes); caught after the date-time kernel was added'),
 ('C20-b', 1): (True, 'C20 h_c20_writer: no-user-controlled-tag-open (colour state blue)', ''),
 ('C20-b', 2): (True, 'C20 h_c20_format: no-user-controlled-tag-close (FormatType Keyword / Decorator / Unit)', ''),
 ('C15-a', 1): (True, 'C15 h_c15_string: echoed-string-reads-back-as-the-same-string (backslash directly before a brace)', ''),
 ('C15-a', 2): (True, 'C15 h_c15_expr: echoed-expression-is-accepted / evaluates-to-the-same-value (template x o x ! o 2)', 'missed while C15 claimed string literals only; caught after the expression echo kernel (symbolic token kinds through parser, checker, printer and back) was added'),
 ('C18-b', 1): (True, 'C18 h_c18_step: operated-list-holds-expected-elements (sole owner, fully consumed view, push)', ''),
 ('C18-b', 2): (True, 'C18 h_c18_step: head-is-first-element (sole owner with view start > 0)', ''),
 ('C10-b', 1): (True, 'C10 h_c10_parse: input-in-grammar-is-accepted (+ - x)', ''),
 ('C10-b', 2): (False, 'not detected (the check ends with exit 2, undecided, not with a VIOLATION)', 'double rounding of hex/octal/binary literals above 2^53. The literal-value kernel added for this seed (h_c10_literal, digits symbolic) reaches the changed code, but the patched code is a chain of 15+ floating-point multiply-adds on symbolic digits: z3 neither proves the is_finite() branch infeasible nor finds the double-rounding digits within 60 s per query, so the paths are reported undecided. On the unchanged tree (integer accumulation, one int-to-float conversion) the kernel decides every path.'),
 ('C03-b', 1): (True, 'C04 h_c04_convert: conversion-factor-agrees-with-unit-definitions on the compound pair kB/Mbit -> MB/kbit', 'missed by C03 and by the first C04 plan (single units only); caught after compound units (products / quotients / powers with metric and binary prefixes) were added to the C04 plan'),
 ('C03-b', 2): (True, 'C03 h_c03_arith: arithmetic-on-compatible-units-succeeds / zero shortcuts (subnormal operand treated as zero)', ''),
 ('C04-b', 1): (True, 'C04 h_c04_convert: magnitude-grows/shrinks-when-converting (subnormal magnitude returned unscaled)', 'missed at first; caught after the bit-exact ordering claim |conv(a)| > |a| (factor >= 4) / < |a| (factor <= 1/4) was added — the solver proves it for all doubles on the unchanged tree'),
 ('C04-b', 2): (True, 'C04 h_c04_convert: conversion-factor-agrees-with-unit-definitions on s/KiB -> s/B and KiB^2 -> B^2', 'missed at first (single units only); caught after compound units were added to the C04 plan'),
 ('C12-b', 1): (True, 'C12 h_c12_api: add-same-quantity / sub-negated-quantity / add-same-unit (subnormal operands)', ''),
 ('C12-b', 2): (True, 'C12 h_c12_api: add-same-unit (inf / NaN / subnormal right operand)', ''),
 ('C09-b', 1): (True, 'C09 h_c09_prog: panic in templates builtin-via-function-value / builtin-via-fn-parameter', 'missed by the first template list; caught after templates calling an asymmetric builtin (cons, cons_end) through a function value were added'),
 ('C09-b', 2): (True, 'C09 h_c09_prog: value-equals-source-semantics (template struct-literal-direct-access)', 'missed by the first template list; caught after the template was added'),
 ('C21-b', 1): (True, 'C21 h_c21_eq2: assert_eq2-fails-only-if-different-in-rhs-unit (both operands +inf)', ''),
 ('C02-a', 1): (True, 'C02 h_c02_solve: substitution-makes-both-sides-equal (one equation with a zero exponent: T0^a L^b ~ Scalar)', 'C02 was not claimed when the seed was written; caught by the constraint-solver kernel'),
 ('C02-a', 2): (False, 'not detected', 'Environment::apply skips unit definitions when applying the solved substitution: whole-program accept/reject, outside the constraint-solver kernel that C02 claims (program structure has no symbolic value)'),
 ('C05-b', 1): (True, 'C05 h_c05_simplify: simplification-preserves-magnitude (cm/m * km * N)', 'missed by the first plan (no case with three differently prefixed occurrences of one base unit); caught after such cases were added'),
 ('C05-b', 2): (True, 'C05 h_c05_simplify: simplification-preserves-dimension; C04 h_c04_convert: magnitude-grows/shrinks-when-converting (subnormal magnitude returned unscaled)', ''),
 ('C11-b', 1): (True, 'C11 h_c11_vm: ne-is-negation-of-eq (NaN operands)', ''),
 ('C11-b', 2): (True, 'C11 h_c11_vm: trichotomy (0.0 vs -0.0 under total_cmp)', ''),
 ('C14-a', 1): (True, 'C14 h_c14_integer: all-digits-are-shown-and-read-back-as-the-value (windows around +-2^31 and 2^32, no separator)', 'missed by the first plan (|x| < 10^5 only); caught after windows around 2^31, 2^32, 2^53 and powers of ten were added'),
 ('C14-a', 2): (False, 'not detected', 'trailing-zero trimming in the floating-point branch (pretty_dtoa output): outside the integer-branch kernel that C14 claims'),
 ('C23-a', 1): (True, 'C23 h_c23_temperature: kelvin-to-scale-and-back-restores-the-value (temperature written in millikelvin)', 'missed by the first plan (kelvin only); caught after prefixed-kelvin cases were added'),
 ('C23-a', 2): (False, 'not detected', 'date-time difference computed from raw timestamps (wrong for instants before 1970 with sub-second parts): date-time arithmetic is C19 / the Unix-time pair of C23, both outside the claimed kernels (jiff calendar arithmetic on symbolic values)'),
 ('C06-a', 1): (True, 'C06 h_c06_rollback: later-input-gives-the-same-result-as-in-a-session-without-the-failure (families unit / dim, run-time failure 2 / (q - q))', ''),
 ('C06-a', 2): (True, 'C06 h_c06_rollback: later-input-gives-the-same-result-as-in-a-session-without-the-failure (family unit: the probe of the rolled-back name is itself the second failing input)', ''),
 ('C16-a', 1): (True, 'C16 h_c16_infer: inferred-signature-is-accepted-as-annotation (bodies 2 / (a * b), 2 per (a b): the inverse of a product printed as `1 / A × B`)', 'missed by the first template list; caught after templates whose types are pure inverses of products were added'),
 ('C16-a', 2): (True, 'C16 h_c16_infer: inferred-signature-is-accepted-as-annotation (bodies a == b, a != b, if a == b …: "Missing dimension bound" for the printed <A>)', ''),
 ('C21-b', 2): (True, 'C21 h_c21_eq3: assert_eq3-succeeds-only-if-within-eps (equal operands, NaN / negative eps)', ''),
}
props = {json.loads(l)['id']: json.loads(l) for l in open('/verif/properties.jsonl')}
count = {}
for inc in sorted(os.listdir(os.path.join(ROOT, '_incoming'))):
    d = os.path.join(ROOT, '_incoming', inc)
    cj = os.path.join(d, 'confirm.json')
    if not os.path.exists(cj): continue
    conf = json.load(open(cj))
    pid = inc.split('-')[0]
    notes = open(os.path.join(d, 'notes.md')).read() if os.path.exists(os.path.join(d, 'notes.md')) else ''
    for n in (1, 2):
        c = conf.get('patch%d' % n)
        if not c: continue
        plog = os.path.join(d, 'confirm_demo%d_patched.log' % n)
        ptxt = open(plog, errors='replace').read() if os.path.exists(plog) else ''
        clog = os.path.join(d, 'confirm_demo%d_clean.log' % n)
        ctxt = open(clog, errors='replace').read() if os.path.exists(clog) else ''
        fails_with = c['demo_patched_rc'] != 0 or 'test result: FAILED' in ptxt or 'panicked' in ptxt
        passes_without = c['demo_clean_rc'] == 0 and 'test result: FAILED' not in ctxt
        ok = c['applies'] == 0 and c['build_rc'] == 0 and c['suite_rc'] == 0 and c['suite_failed'] == 0 and fails_with and passes_without
        if not ok:
            print('NOT CONFIRMED', inc, n, c); continue
        count[pid] = count.get(pid, 0) + 1
        out = os.path.join(ROOT, '%s-%d' % (pid, count[pid]))
        shutil.rmtree(out, ignore_errors=True); os.makedirs(out)
        shutil.copy(os.path.join(d, 'patch%d.diff' % n), os.path.join(out, 'patch.diff'))
        for f in glob.glob(os.path.join(d, 'demo%d*' % n)):
            if not f.endswith('.log') and not f.endswith('.out') and 'output' not in f: shutil.copy(f, out)
        det = DETECT.get((inc, n), (None, 'not yet run', ''))
        meta = {
            'property': pid, 'title': props[pid]['title'], 'origin': 'written by an independent sub-agent given only the property text and a scratch worktree (%s, patch %d)' % (inc, n),
            'needs_to_manifest': re.sub(r'\s+', ' ', notes)[:0] or 'see notes.md (section for patch %d)' % n,
            'confirmed_by_me': {'worktree_head': conf.get('head'), 'applies_cleanly': True, 'builds': True, 'existing_suite': '%d passed, 0 failed' % c['suite_passed'],
                                'demo_without_patch': 'passes (rc %d)' % c['demo_clean_rc'], 'demo_with_patch': 'fails (rc %d%s)' % (c['demo_patched_rc'], '; a test of the demo reports FAILED' if 'test result: FAILED' in ptxt else ''),
                                'ran': 'tools/confirm_seed.sh %s' % inc},
            'detected_by_checks': det[0], 'detected_how': det[1], 'remark': det[2],
        }
        json.dump(meta, open(os.path.join(out, 'meta.json'), 'w'), indent=1)
        open(os.path.join(out, 'notes.md'), 'w').write(notes)
        print('ok', out, det[0])
