//! C23 (kernel) — temperature-scale conversions of the standard library undo each other.
//!
//! The REAL module `physics::temperature_conversion` is imported into a real session; programs are interpreted through
//! the whole pipeline. cfg 0 = prelude, cfg 1 = scale ("celsius" | "fahrenheit"), cfg 2 = optional prefixed kelvin unit. f64 0 = x (assumed |x| <= 1e6).

use numbat::value::Value;

use crate::session::{Outcome, Session};
use crate::sym::*;

fn scalar(o: Outcome) -> Option<f64> {
    match o {
        Outcome::Value(Value::Quantity(q)) => Some(q.unsafe_value().to_f64()),
        _ => None,
    }
}

#[unsafe(no_mangle)]
pub extern "C" fn h_c23_temperature() {
    let mut s = Session::new(&cfg(0).expect("cfg 0"));
    checkpoint();
    let scale = cfg(1).expect("cfg 1");
    let fahrenheit = scale.trim() == "fahrenheit";
    let x = f64_(0);
    assume(x >= -1.0e6 && x <= 1.0e6);
    let (to, from) = if fahrenheit { ("fahrenheit", "from_fahrenheit") } else { ("celsius", "from_celsius") };
    let tol = if fahrenheit { 1.0e-8 } else { 1.0e-9 };
    // cfg 2 (optional): the unit the absolute temperature is written in (a prefixed kelvin). Only the
    // kelvin -> scale -> kelvin direction is run then; both sides are expressed in kelvin by the implementation.
    if let Some(unit) = cfg(2) {
        let unit = unit.trim().to_string();
        assume(x >= 0.0);
        let k0 = match scalar(s.run(&format!("(__verif_sym(0) {unit}) / kelvin"))) {
            Some(v) => v,
            None => {
                check(false, "round-trip-evaluates");
                return;
            }
        };
        match s.run(&format!("{from}({to}(__verif_sym(0) {unit})) / kelvin")) {
            Outcome::Value(Value::Quantity(q)) => {
                cover("c23-round-trip-evaluated");
                let k = q.unsafe_value().to_f64();
                check(q.unit().is_scalar(), "kelvin-round-trip-is-a-temperature");
                check((k - k0).abs() <= tol, "kelvin-to-scale-and-back-restores-the-value");
            }
            _ => check(false, "round-trip-evaluates"),
        }
        return;
    }
    // scale value -> kelvin -> scale value
    let v = match scalar(s.run(&format!("{}({}(__verif_sym(0)))", to, from))) {
        Some(v) => v,
        None => {
            check(false, "round-trip-evaluates");
            return;
        }
    };
    cover("c23-round-trip-evaluated");
    check((v - x).abs() <= tol, "scale-to-kelvin-and-back-restores-the-value");
    // kelvin -> scale value -> kelvin (for non-negative absolute temperatures)
    if x >= 0.0 {
        match s.run(&format!("{}({}(__verif_sym(0) kelvin)) / kelvin", from, to)) {
            Outcome::Value(Value::Quantity(q)) => {
                // the quotient is dimensionless
                let k = q.unsafe_value().to_f64();
                check(q.unit().is_scalar(), "kelvin-round-trip-is-a-temperature");
                check((k - x).abs() <= tol, "kelvin-to-scale-and-back-restores-the-value");
            }
            _ => check(false, "round-trip-evaluates"),
        }
    }
}
