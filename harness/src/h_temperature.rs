//! C23 (kernel) — temperature-scale conversions of the standard library undo each other.
//!
//! The REAL module `physics::temperature_conversion` is imported into a real session; programs are interpreted through
//! the whole pipeline. cfg 0 = prelude, cfg 1 = scale ("celsius" | "fahrenheit"). f64 0 = x (assumed |x| <= 1e6).

use numbat::value::Value;

use crate::session::{Outcome, Session};
use crate::sym::*;

fn scalar(o: Outcome) -> Option<f64> {
    match o {
        Outcome::Value(Value::Quantity(q)) => Some(q.unsafe_value().to_f64()),
        _ => None,
    }
}

#[unsafe(no_mangle)]
pub extern "C" fn h_c23_temperature() {
    let mut s = Session::new(&cfg(0).expect("cfg 0"));
    checkpoint();
    let scale = cfg(1).expect("cfg 1");
    let fahrenheit = scale.trim() == "fahrenheit";
    let x = f64_(0);
    assume(x >= -1.0e6 && x <= 1.0e6);
    let (to, from) = if fahrenheit { ("fahrenheit", "from_fahrenheit") } else { ("celsius", "from_celsius") };
    // scale value -> kelvin -> scale value
    let v = match scalar(s.run(&format!("{}({}(__verif_sym(0)))", to, from))) {
        Some(v) => v,
        None => {
            check(false, "round-trip-evaluates");
            return;
        }
    };
    cover("c23-round-trip-evaluated");
    let tol = if fahrenheit { 1.0e-8 } else { 1.0e-9 };
    check((v - x).abs() <= tol, "scale-to-kelvin-and-back-restores-the-value");
    // kelvin -> scale value -> kelvin (for non-negative absolute temperatures)
    if x >= 0.0 {
        match s.run(&format!("{}({}(__verif_sym(0) kelvin)) / kelvin", from, to)) {
            Outcome::Value(Value::Quantity(q)) => {
                // the quotient is dimensionless
                let k = q.unsafe_value().to_f64();
                check(q.unit().is_scalar(), "kelvin-round-trip-is-a-temperature");
                check((k - x).abs() <= tol, "kelvin-to-scale-and-back-restores-the-value");
            }
            _ => check(false, "round-trip-evaluates"),
        }
    }
}
