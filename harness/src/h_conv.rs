//! C04 — conversion yields exactly the requested unit and the same quantity.
//!
//! Through the real VM opcodes (LoadConstant, Multiply, ConvertTo, Return).
//!   cfg 0 = source unit spec, cfg 1 = target unit spec, cfg 2 = target magnitude t (f64 bits, hex; 1.0 if absent),
//!   cfg 3 = expected conversion factor source -> target as f64 bits (hex), computed by the plan with exact
//!           rational arithmetic from the definition trees alone (absent if not computable exactly)
//!   cfg 4 = intermediate unit spec (optional)
//!   f64 0 = magnitude a (all doubles), u64 5 = exponent field e of a power of two 2^(e-1023)

use numbat::verif_hooks::quantity::Quantity;
use numbat::verif_hooks::unit::Unit;
use numbat::verif_hooks::vm::Op;

use crate::h_cmp::{Out, VmSession};
use crate::sym::*;
use crate::units;

fn same_unit_structure(x: &Unit, y: &Unit) -> bool {
    x.iter().count() == y.iter().count() && x.iter().zip(y.iter()).all(|(f, g)| f == g)
}

fn hexbits(s: &str) -> f64 {
    f64::from_bits(u64::from_str_radix(s.trim(), 16).expect("hex bits"))
}

fn ulps_apart(x: f64, y: f64) -> u64 {
    if x == y {
        return 0;
    }
    if x.is_nan() || y.is_nan() || (x < 0.0) != (y < 0.0) {
        return u64::MAX;
    }
    let (a, b) = (x.abs().to_bits(), y.abs().to_bits());
    if a > b { a - b } else { b - a }
}

fn convert(s: &mut VmSession, a: f64, u: &Unit, t: f64, target: &Unit) -> Option<Quantity> {
    match s.binop(Op::ConvertTo, a, u, t, target) {
        Out::Quantity(q) => Some(q),
        _ => None,
    }
}

#[unsafe(no_mangle)]
pub extern "C" fn h_c04_convert() {
    checkpoint();
    let u = units::parse(&cfg(0).expect("cfg 0"));
    let target = units::parse(&cfg(1).expect("cfg 1"));
    let t = cfg(2).map(|s| hexbits(&s)).unwrap_or(1.0);
    let a = f64_(0);
    let mut s = VmSession::new();

    // ---- a u -> t U
    let r = match convert(&mut s, a, &u, t, &target) {
        Some(q) => q,
        None => {
            check(false, "conversion-between-same-dimension-units-succeeds");
            return;
        }
    };
    cover("c04-converted");
    check(same_unit_structure(r.unit(), &target), "result-is-in-exactly-the-requested-unit");
    check(!r.can_simplify(), "explicit-conversion-is-not-simplified-afterwards");
    match r.verif_conversion_target() {
        Some(ct) => {
            check(t != 1.0, "multiple-of-target-only-when-target-magnitude-is-not-1");
            check(ct.unsafe_value().to_f64() == t && same_unit_structure(ct.unit(), &target), "displayed-as-multiple-of-the-requested-target");
        }
        None => check(t == 1.0, "displayed-as-multiple-of-the-requested-target"),
    }
    // ---- value class (conversion factors are positive and finite)
    let v = r.unsafe_value().to_f64();
    if a.is_nan() {
        check(v.is_nan(), "nan-stays-nan");
    } else if a == 0.0 {
        check(v == 0.0, "zero-stays-zero");
    } else {
        check(!v.is_nan(), "non-nan-stays-non-nan");
        check(v == 0.0 || (v < 0.0) == (a < 0.0), "sign-preserved");
        if a.is_infinite() {
            check(v.is_infinite(), "infinite-stays-infinite");
        }
    }
    // ---- the magnitude moves in the direction of the conversion factor (bit-exact consequence of monotone rounding;
    //      in particular a subnormal magnitude is converted like any other)
    if let Some(f) = cfg(3).map(|s| hexbits(&s)) {
        if a.is_finite() && a != 0.0 && t == 1.0 {
            // (a * from_factor) / to_factor: for magnitudes next to the subnormal range the intermediate product may
            // underflow to zero, next to the largest doubles it may overflow — both are floating-point tolerance, not a
            // wrong conversion (false alarm of this check under VERIF_SEED=1, millimetre -> micrometre with a = 1e-323)
            if f >= 4.0 {
                check(v.abs() > a.abs() || (v == 0.0 && a.abs() < 1e-200), "magnitude-grows-when-converting-to-a-smaller-unit");
            } else if f <= 0.25 {
                check(v.abs() < a.abs() || (v.is_infinite() && a.abs() > 1e200), "magnitude-shrinks-when-converting-to-a-larger-unit");
            }
        }
    }
    // ---- converting the result again to the plain target unit: same magnitude, plain display
    if let Some(r2) = convert(&mut s, v, &target, 1.0, &target) {
        let v2 = r2.unsafe_value().to_f64();
        check(v2.to_bits() == v.to_bits() || (v.is_nan() && v2.is_nan()), "conversion-is-idempotent");
        check(same_unit_structure(r2.unit(), &target), "result-is-in-exactly-the-requested-unit");
    }
    // the already converted quantity (carrying its display marker) converted once more to the plain unit
    {
        let again = r.convert_to(&target).map(|q| q.no_simplify().with_conversion_target(Quantity::from_unit(target.clone())));
        match again {
            Ok(q) => {
                check(q.verif_conversion_target().is_none(), "second-conversion-to-plain-unit-displays-plain-unit");
                let v3 = q.unsafe_value().to_f64();
                check(v3.to_bits() == v.to_bits() || (v.is_nan() && v3.is_nan()), "conversion-is-idempotent");
            }
            Err(_) => check(false, "conversion-between-same-dimension-units-succeeds"),
        }
    }
    // ---- a u -> u is a, bit for bit
    if let Some(same) = convert(&mut s, a, &u, 1.0, &u) {
        let w = same.unsafe_value().to_f64();
        check(w.to_bits() == a.to_bits() || (a.is_nan() && w.is_nan()), "conversion-to-own-unit-is-identity");
    }
    // ---- the factor itself: 1 u -> U against the exact value from the unit definitions (concrete)
    if let Some(expected) = cfg(3).map(|s| hexbits(&s)) {
        if let Some(one) = convert(&mut s, 1.0, &u, 1.0, &target) {
            let f = one.unsafe_value().to_f64();
            obs_f64("factor", f);
            check(ulps_apart(f, expected) <= 16, "conversion-factor-agrees-with-unit-definitions");
            // via an intermediate unit
            if let Some(mid_spec) = cfg(4) {
                let mid = units::parse(&mid_spec);
                if let Some(q1) = convert(&mut s, 1.0, &u, 1.0, &mid) {
                    if let Some(q2) = convert(&mut s, q1.unsafe_value().to_f64(), &mid, 1.0, &target) {
                        check(ulps_apart(q2.unsafe_value().to_f64(), expected) <= 64, "conversion-through-intermediate-unit-agrees");
                    }
                }
            }
            // and back
            if let Some(back) = convert(&mut s, f, &target, 1.0, &u) {
                check(ulps_apart(back.unsafe_value().to_f64(), 1.0) <= 16, "back-conversion-restores-magnitude");
            }
        }
    }
}

/// power-of-two magnitudes: a = ±2^k converts to exactly ±2^k times the conversion of 1
/// (multiplication by a power of two is exact as long as nothing over/underflows)
#[unsafe(no_mangle)]
pub extern "C" fn h_c04_scaling() {
    checkpoint();
    let u = units::parse(&cfg(0).expect("cfg 0"));
    let target = units::parse(&cfg(1).expect("cfg 1"));
    let e = u64_(5);
    assume(e >= 1023 - 200 && e <= 1023 + 200);
    let neg = u64_(6);
    assume(neg < 2);
    let a = f64::from_bits((neg << 63) | (e << 52));
    let mut s = VmSession::new();
    let one = match convert(&mut s, 1.0, &u, 1.0, &target) {
        Some(q) => q.unsafe_value().to_f64(),
        None => return,
    };
    let r = match convert(&mut s, a, &u, 1.0, &target) {
        Some(q) => q.unsafe_value().to_f64(),
        None => return,
    };
    cover("c04-scaling-evaluated");
    if one.abs() > 1e-100 && one.abs() < 1e100 {
        check(r == one * a, "power-of-two-magnitudes-scale-exactly");
    }
}
