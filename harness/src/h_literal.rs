//! C10 — numeric value of hexadecimal / octal / binary literals (tokenizer + parser, real code).
//!
//!   cfg 0 = base (16, 8 or 2)
//!   cfg 1 = one class letter per character after the `0x` / `0o` / `0b` prefix:
//!           d = symbolic digit '0'..'9', l = symbolic 'a'..'f', U = symbolic 'A'..'F',
//!           o = symbolic '0'..'7', b = symbolic '0'..'1', t = symbolic '2'..'3', _ = the separator (concrete)
//!   u64 i = character of position i (for the symbolic positions)
//!
//! The literal denotes the integer v that its digits spell in the given base. The parser must produce the
//! double nearest to v (round to nearest even — `v as f64`), or reject the literal if v does not fit 127 bits.

use numbat::verif_hooks::ast::{Expression, Statement};
use numbat::verif_hooks::parser::parse;

use crate::sym::*;

#[unsafe(no_mangle)]
pub extern "C" fn h_c10_literal() {
    checkpoint();
    let base: u128 = cfg(0).expect("cfg 0").trim().parse().expect("base");
    let classes = cfg(1).expect("cfg 1");
    // bytes are collected in a Vec<u8> (pushing a symbolic `char` to a String makes its length a symbolic term)
    let mut text: Vec<u8> = Vec::with_capacity(160);
    text.extend_from_slice(match base {
        16 => b"0x",
        8 => b"0o",
        _ => b"0b",
    });
    let mut v: u128 = 0;
    let mut ndigits = 0u32;
    for (i, cl) in classes.trim().bytes().enumerate() {
        if cl == b'_' {
            text.push(b'_');
            continue;
        }
        let (lo, hi, off): (u8, u8, u64) = match cl {
            b'd' => (b'0', b'9', 0),
            b'l' => (b'a', b'f', 10),
            b'U' => (b'A', b'F', 10),
            b'o' => (b'0', b'7', 0),
            b't' => (b'2', b'3', 2),
            _ => (b'0', b'1', 0),
        };
        let b = u64_(i as u32);
        assume(b >= lo as u64 && b <= hi as u64);
        text.push(b as u8);
        v = v.wrapping_mul(base).wrapping_add((b - lo as u64 + off) as u128);
        ndigits += 1;
    }
    // the digits fit 128 bits by the plan's choice of length
    let bits_per_digit = match base {
        16 => 4,
        8 => 3,
        _ => 1,
    };
    let _ = (ndigits, bits_per_digit);
    let text = unsafe { String::from_utf8_unchecked(text) };
    let r = parse(&text, 0);
    cover("c10-literal-parsed");
    match r {
        Ok(stmts) => {
            let value = match stmts.as_slice() {
                [Statement::Expression(Expression::Scalar(_, n))] => Some(n.to_f64()),
                _ => None,
            };
            match value {
                Some(x) => {
                    cover("c10-literal-accepted");
                    check(v < (1u128 << 127), "literal-beyond-127-bits-is-rejected-not-wrapped");
                    let want = v as f64;
                    obs_f64("c10-literal-value", x);
                    check(x.to_bits() == want.to_bits(), "literal-denotes-nearest-double-of-its-digits");
                }
                None => check(false, "literal-parses-to-a-single-scalar"),
            }
        }
        Err(_) => {
            cover("c10-literal-rejected");
            check(v >= (1u128 << 127), "literal-within-range-is-accepted");
        }
    }
}
