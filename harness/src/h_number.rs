//! C14 (kernel, integer branch) — displayed integers read back as the value they show.
//!
//!   cfg 0 = digit separator ("_" "," or "none"), cfg 1 = grouping threshold, cfg 2 = bound B (|x| < B)
//!   cfg 3 = optional centre c of the window (|x - c| < B; default 0)
//!   f64 0 = x, assumed integer-valued with |x - c| < B and |x| <= 2^53

use numbat::verif_hooks::number::Number;
use numbat::FormatOptions;

use crate::sym::*;

#[unsafe(no_mangle)]
pub extern "C" fn h_c14_integer() {
    checkpoint();
    let sep = cfg(0).expect("cfg 0");
    let sep = if sep.trim() == "none" { String::new() } else { sep.trim().to_string() };
    let threshold: usize = cfg(1).expect("cfg 1").trim().parse().unwrap();
    let bound: f64 = cfg(2).expect("cfg 2").trim().parse().unwrap();
    let x = f64_(0);
    // cfg 3 (optional) = centre c of the window: |x - c| < B instead of |x| < B (integers below 2^53 throughout)
    let centre: f64 = cfg(3).map(|c| c.trim().parse().unwrap()).unwrap_or(0.0);
    assume(x.trunc() == x && (x - centre).abs() < bound && x.abs() <= 9007199254740992.0);
    let options = FormatOptions {
        digit_separator: sep.clone(),
        digit_grouping_threshold: threshold,
        ..FormatOptions::default()
    };
    let text = Number::from_f64(x).pretty_print_with(&options);
    let bytes = text.as_bytes();
    cover("c14-formatted");
    // read back: optional minus, digits with separators
    let mut i = 0;
    let mut neg = false;
    if !bytes.is_empty() && bytes[0] == b'-' {
        neg = true;
        i = 1;
    }
    let sepb = sep.as_bytes().first().copied();
    let mut value: u64 = 0;
    let mut ndigits = 0usize;
    let mut well_formed = i < bytes.len();
    let mut sep_positions_ok = true;
    let total = bytes.len();
    while i < total {
        let b = bytes[i];
        if Some(b) == sepb {
            // a separator has a multiple of three digits to its right, and digits on both sides
            let digits_right = total - i - 1 - (total - i - 1) / 4; // groups of "ddd" + sep
            sep_positions_ok &= (total - i - 1) % 4 == 3 && ndigits > 0;
            let _ = digits_right;
        } else if b.is_ascii_digit() {
            value = value * 10 + (b - b'0') as u64;
            ndigits += 1;
        } else {
            well_formed = false;
        }
        i += 1;
    }
    check(well_formed && ndigits > 0, "integer-is-displayed-as-digits");
    check(sep_positions_ok, "separators-only-between-groups-of-three");
    let magnitude = x.abs() as u64;
    check(value == magnitude, "all-digits-are-shown-and-read-back-as-the-value");
    check(neg == (x < 0.0) || (x == 0.0), "sign-is-shown");
    // grouping is used exactly from the configured threshold on
    let has_sep = sepb.map(|s| bytes.contains(&s)).unwrap_or(false);
    let mut limit = 1u64;
    for _ in 1..threshold {
        limit *= 10;
    }
    let should_group = sepb.is_some() && magnitude >= limit && magnitude >= 1000;
    check(has_sep == should_group, "grouping-follows-the-threshold");
}
