//! Native catalog of the current tree's standard library: every unit the prelude (plus the
//! extra unit modules) defines, with its aliases, accepted prefixes, the *real* definition tree
//! (serialised, see `units`), exact base representation and conversion factor to base units.
//! One JSON object per line on stdout.

use numbat::module_importer::BuiltinModuleImporter;
use numbat::resolver::CodeSource;
use numbat::Context;

use crate::units;

fn js(s: &str) -> String {
    let mut o = String::from("\"");
    for c in s.chars() {
        match c {
            '"' => o.push_str("\\\""),
            '\\' => o.push_str("\\\\"),
            '\n' => o.push_str("\\n"),
            c if (c as u32) < 0x20 => o.push_str(&format!("\\u{:04x}", c as u32)),
            c => o.push(c),
        }
    }
    o.push('"');
    o
}

pub fn prelude_context() -> Context {
    let mut ctx = Context::new(BuiltinModuleImporter::default());
    ctx.interpret("use prelude", CodeSource::Internal)
        .expect("prelude loads");
    ctx
}

pub fn dump() {
    let ctx = prelude_context();
    let mut entries: Vec<_> = ctx.unit_representations().collect();
    entries.sort_by(|a, b| a.0.cmp(&b.0));
    let mut n = 0;
    for (name, (base_repr, md)) in entries {
        let unit = match ctx.verif_unit(&name) {
            Some(u) => u,
            None => {
                println!("{{\"error\": \"no unit constant for {}\"}}", name);
                continue;
            }
        };
        let spec = units::serialise(&unit);
        // the reconstruction used by the harnesses must be exact
        let back = units::parse(&spec);
        let same = back == unit
            && back.iter().count() == unit.iter().count()
            && back.iter().zip(unit.iter()).all(|(a, b)| a == b);
        let (base_unit, factor) = unit.to_base_unit_representation();
        let mut dims: Vec<String> = Vec::new();
        for f in base_repr.iter() {
            dims.push(format!("[{},{},{}]", js(&f.0), f.1.numer(), f.1.denom()));
        }
        let mut bu: Vec<String> = Vec::new();
        for f in base_unit.iter() {
            bu.push(format!(
                "[{},{},{}]",
                js(&f.unit_id.name),
                f.exponent.numer(),
                f.exponent.denom()
            ));
        }
        let mut aliases: Vec<String> = Vec::new();
        for (a, ap) in &md.aliases {
            aliases.push(format!("[{},{},{}]", js(a), ap.short, ap.long));
        }
        println!(
            "{{\"name\":{},\"canonical\":{},\"aliases\":[{}],\"metric\":{},\"binary\":{},\"abbrev\":{},\"is_base\":{},\"spec\":{},\"roundtrip\":{},\"dim\":[{}],\"base_unit\":[{}],\"factor_bits\":\"{:016x}\",\"factor\":{:e},\"type\":{}}}",
            js(&name),
            js(&md.canonical_name.name),
            aliases.join(","),
            md.metric_prefixes,
            md.binary_prefixes,
            md.is_abbreviation,
            unit.iter().next().map(|f| f.unit_id.is_base()).unwrap_or(false),
            js(&spec),
            same,
            dims.join(","),
            bu.join(","),
            factor.to_f64().to_bits(),
            factor.to_f64(),
            js(&md.readable_type.to_string()),
        );
        n += 1;
    }
    eprintln!("catalog: {n} units");
}
