//! C20 — HTML rendering never emits user-controlled markup.
//!
//! h_c20_writer: the diagnostic writer (`HtmlWriter`: std::io::Write + termcolor::WriteColor).
//!   cfg 0 = number of bytes n (concrete per case); symbolic: u64 0..n-1 = the bytes (ASCII),
//!   u64 10 = colour state, u64 11 = split point (the text is written in two `write_all` calls).
//! h_c20_format: the markup formatter (`HtmlFormatter::format_part` / `html_format`).
//!   cfg 0 = n; symbolic: the bytes, u64 10 = FormatType.

use std::io::Write;

use numbat::buffered_writer::BufferedWriter;
use numbat::html_formatter::{HtmlFormatter, HtmlWriter};
use numbat::markup::{FormatType, FormattedString, Formatter, Markup, OutputType};
use termcolor::{Color, ColorSpec, WriteColor};

use crate::sym::*;

/// Reference: "escape, then wrap". Written against the property text (HTML text content must have
/// `&`, `<`, `>` replaced by entities), independent of the implementation.
fn escape_ref(input: &[u8], out: &mut Vec<u8>) {
    for &b in input {
        if b == b'&' {
            out.extend_from_slice(b"&amp;");
        } else if b == b'<' {
            out.extend_from_slice(b"&lt;");
        } else if b == b'>' {
            out.extend_from_slice(b"&gt;");
        } else {
            out.push(b);
        }
    }
}

fn count(hay: &[u8], needle: u8) -> usize {
    let mut n = 0;
    for &b in hay {
        if b == needle {
            n += 1;
        }
    }
    n
}

fn symbolic_ascii(n: usize) -> Vec<u8> {
    let mut v = Vec::with_capacity(n);
    for i in 0..n {
        let b = u64_(i as u32);
        assume(b < 128);
        v.push(b as u8);
    }
    v
}

fn case_len() -> usize {
    cfg(0).expect("cfg 0").trim().parse().expect("length")
}

#[unsafe(no_mangle)]
pub extern "C" fn h_c20_writer() {
    checkpoint();
    let n = case_len();
    let bytes = symbolic_ascii(n);
    let colour = u64_(10);
    assume(colour < 5);
    if let Some(c) = cfg(1) {
        // the plan may pin the colour state per case (more cases, fewer paths per case)
        assume(colour == c.trim().parse::<u64>().expect("colour"));
    }
    let split = u64_(11) as usize;
    assume(split <= n);

    let mut w = HtmlWriter::new();
    let (open, close): (&[u8], &[u8]) = match colour {
        1 => {
            w.set_color(ColorSpec::new().set_fg(Some(Color::Red))).unwrap();
            (b"<span class=\"numbat-diagnostic-red\">", b"</span>")
        }
        2 => {
            w.set_color(ColorSpec::new().set_fg(Some(Color::Blue))).unwrap();
            (b"<span class=\"numbat-diagnostic-blue\">", b"</span>")
        }
        3 => {
            w.set_color(ColorSpec::new().set_bold(true)).unwrap();
            (b"<span class=\"numbat-diagnostic-bold\">", b"</span>")
        }
        4 => {
            w.set_color(ColorSpec::new().set_fg(Some(Color::Green))).unwrap();
            (b"", b"")
        }
        _ => (b"", b""),
    };
    // `write_all` relies on the count `write` returns
    let r1 = w.write_all(&bytes[..split]);
    let r2 = w.write_all(&bytes[split..]);
    check(r1.is_ok() && r2.is_ok(), "writer-accepts-all-bytes");
    w.reset().unwrap();
    let out = BufferedWriter::to_string(&w);
    let out = out.as_bytes();
    cover("c20-writer-output-produced");

    let mut expected: Vec<u8> = Vec::new();
    for part in [&bytes[..split], &bytes[split..]] {
        if part.is_empty() {
            // write_all(&[]) performs no write call at all
            continue;
        }
        expected.extend_from_slice(open);
        escape_ref(part, &mut expected);
        expected.extend_from_slice(close);
    }
    // no tag characters except the writer's own spans
    let own_tags = count(&expected, b'<');
    check(count(out, b'<') == own_tags, "no-user-controlled-tag-open");
    check(count(out, b'>') == own_tags, "no-user-controlled-tag-close");
    check(out.len() == expected.len(), "escaped-length");
    if out.len() == expected.len() {
        let mut same = true;
        for i in 0..out.len() {
            same &= out[i] == expected[i];
        }
        check(same, "output-is-escaped-input-in-own-spans");
    }
}

fn format_type(k: u64) -> (FormatType, Option<&'static str>) {
    match k {
        0 => (FormatType::Whitespace, None),
        1 => (FormatType::Emphasized, Some("emphasized")),
        2 => (FormatType::Dimmed, Some("dimmed")),
        3 => (FormatType::Text, None),
        4 => (FormatType::String, Some("string")),
        5 => (FormatType::Keyword, Some("keyword")),
        6 => (FormatType::Value, Some("value")),
        7 => (FormatType::Unit, Some("unit")),
        8 => (FormatType::Identifier, Some("identifier")),
        9 => (FormatType::TypeIdentifier, Some("type-identifier")),
        10 => (FormatType::Operator, Some("operator")),
        _ => (FormatType::Decorator, Some("decorator")),
    }
}

#[unsafe(no_mangle)]
pub extern "C" fn h_c20_format() {
    checkpoint();
    let n = case_len();
    let bytes = symbolic_ascii(n);
    let k = u64_(10);
    assume(k < 12);
    if let Some(c) = cfg(1) {
        assume(k == c.trim().parse::<u64>().expect("format type"));
    }
    let (ft, class) = format_type(k);
    let content = match String::from_utf8(bytes.clone()) {
        Ok(s) => s,
        Err(_) => {
            check(false, "ascii-is-utf8");
            return;
        }
    };
    let markup = Markup(vec![FormattedString(
        OutputType::Normal,
        ft,
        compact_str::CompactString::from(content).into(),
    )]);
    let out = HtmlFormatter {}.format(&markup, false);
    let out = out.as_bytes();
    cover("c20-format-output-produced");

    let mut expected: Vec<u8> = Vec::new();
    if n > 0 {
        if let Some(c) = class {
            expected.extend_from_slice(b"<span class=\"numbat-");
            expected.extend_from_slice(c.as_bytes());
            expected.extend_from_slice(b"\">");
        }
        escape_ref(&bytes, &mut expected);
        if class.is_some() {
            expected.extend_from_slice(b"</span>");
        }
    }
    let own_tags = count(&expected, b'<');
    check(count(out, b'<') == own_tags, "no-user-controlled-tag-open");
    check(count(out, b'>') == own_tags, "no-user-controlled-tag-close");
    check(out.len() == expected.len(), "escaped-length");
    if out.len() == expected.len() {
        let mut same = true;
        for i in 0..out.len() {
            same &= out[i] == expected[i];
        }
        check(same, "output-is-escaped-input-in-own-spans");
    }
}
