//! A real numbat session (`Context`: resolver, tokenizer, parser, prefix transformer, type checker,
//! bytecode compiler, VM) for harnesses that run whole programs. The prelude text of the case is
//! interpreted concretely before the checkpoint; programs may contain `__verif_sym(k)` holes, which
//! evaluate to the k-th symbolic f64 input.
#![allow(dead_code)]

use std::sync::{Arc, Mutex};

use numbat::module_importer::BuiltinModuleImporter;
use numbat::resolver::CodeSource;
use numbat::value::Value;
use numbat::{Context, InterpreterResult, InterpreterSettings, NumbatError, RuntimeErrorKind};

pub struct Session {
    pub ctx: Context,
    pub printed: Arc<Mutex<Vec<String>>>,
}

pub enum Outcome {
    Value(Value),
    Continue,
    ResolverError,
    NameError,
    TypeError,
    Runtime(RuntimeErrorKind),
}

impl Session {
    pub fn new(prelude: &str) -> Session {
        let mut ctx = Context::new(BuiltinModuleImporter::default());
        let r = ctx.interpret(prelude, CodeSource::Internal);
        if r.is_err() {
            crate::sym::check(false, "session-prelude-is-accepted");
        }
        Session {
            ctx,
            printed: Arc::new(Mutex::new(Vec::new())),
        }
    }

    pub fn run(&mut self, code: &str) -> Outcome {
        let printed = self.printed.clone();
        let mut settings = InterpreterSettings {
            print_fn: Box::new(move |m: &numbat::markup::Markup| {
                printed.lock().unwrap().push(m.to_string());
            }),
        };
        match self.ctx.interpret_with_settings(&mut settings, code, CodeSource::Text) {
            Ok((_, InterpreterResult::Value(v))) => Outcome::Value(v),
            Ok((_, InterpreterResult::Continue)) => Outcome::Continue,
            Err(e) => match *e {
                NumbatError::ResolverError(_) => Outcome::ResolverError,
                NumbatError::NameResolutionError(_) => Outcome::NameError,
                NumbatError::TypeCheckError(_) => Outcome::TypeError,
                NumbatError::RuntimeError(re) => Outcome::Runtime(re.kind),
            },
        }
    }

    pub fn printed_count(&self) -> usize {
        self.printed.lock().unwrap().len()
    }

    /// the session's unit constant must be structurally the catalog's unit (same factors, same
    /// definition tree), otherwise the generated prelude does not stand for the standard library unit
    pub fn unit_matches(&self, name: &str, spec: &str) -> bool {
        let want = crate::units::parse(spec);
        match self.ctx.verif_unit(name) {
            None => false,
            Some(u) => {
                u.iter().count() == want.iter().count() && u.iter().zip(want.iter()).all(|(a, b)| a == b)
            }
        }
    }
}
