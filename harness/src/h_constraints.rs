//! C02 (kernel) — the checker's unification / elimination over dimension exponents.
//!
//! `ConstraintSet::solve` (with `Constraint::try_satisfy`, `DType::{from_factors, divide, multiply, power}`,
//! `Substitution::apply`) on dimension equations whose exponents are symbolic integers in [-3, 3].
//!   cfg 0 = shape: "one" (T0^a L^b ~ L^c M^d)  |  "two" (T0^a T1^b ~ L^p ;  T0^c T1^d ~ L^q M^r)
//!   u64 0.. = exponents + 3
//! Oracle: solvability of the linear system over the rationals, decided by integer arithmetic on the exponents.

use std::sync::Arc;

use numbat::verif_hooks::arithmetic::Rational;
use numbat::verif_hooks::constraints::{ApplySubstitution, Constraint, ConstraintSet, TypeVariable};
use numbat::verif_hooks::typed_ast::{DType, DTypeFactor, Type};

use crate::sym::*;

fn exp(id: u32) -> i128 {
    let v = u64_(id);
    assume(v <= 6);
    // the plan may pin some exponents per case ("id:value,id:value" in cfg 1): more cases, fewer paths per case
    if let Some(pins) = cfg(1) {
        for item in pins.split(',') {
            if let Some((i, val)) = item.split_once(':') {
                if i.trim().parse::<u32>().ok() == Some(id) {
                    assume(v == val.trim().parse::<u64>().expect("pinned value"));
                }
            }
        }
    }
    v as i128 - 3
}

fn tvar(name: &str) -> DTypeFactor {
    DTypeFactor::TVar(TypeVariable::new(name))
}

fn base(name: &str) -> DTypeFactor {
    DTypeFactor::BaseDimension(name.into())
}

fn dtype(factors: Vec<(DTypeFactor, i128)>) -> DType {
    DType::from_factors(Arc::new(factors.into_iter().map(|(f, e)| (f, Rational::from_integer(e))).collect()))
}

/// 2x2 linear system A x = rhs over the rationals: is it consistent?
fn consistent(a: i128, b: i128, c: i128, d: i128, p: i128, q: i128) -> bool {
    let det = a * d - b * c;
    if det != 0 {
        return true;
    }
    if a == 0 && b == 0 && c == 0 && d == 0 {
        return p == 0 && q == 0;
    }
    a * q == c * p && b * q == d * p
}

#[unsafe(no_mangle)]
pub extern "C" fn h_c02_solve() {
    checkpoint();
    let shape = cfg(0).expect("cfg 0");
    let mut cs = ConstraintSet::default();
    let mut originals: Vec<(DType, DType)> = Vec::new();
    let solvable;
    if shape.trim() == "one" {
        let (a, b, c, d) = (exp(0), exp(1), exp(2), exp(3));
        let lhs = dtype(vec![(tvar("T0"), a), (base("Length"), b)]);
        let rhs = dtype(vec![(base("Length"), c), (base("Mass"), d)]);
        originals.push((lhs, rhs));
        // a·x = c-b (Length), a·x' = d (Mass)
        solvable = a != 0 || (b == c && d == 0);
    } else {
        let (a, b, c, d) = (exp(0), exp(1), exp(2), exp(3));
        let (p, q, r) = (exp(4), exp(5), exp(6));
        originals.push((dtype(vec![(tvar("T0"), a), (tvar("T1"), b)]), dtype(vec![(base("Length"), p)])));
        originals.push((dtype(vec![(tvar("T0"), c), (tvar("T1"), d)]), dtype(vec![(base("Length"), q), (base("Mass"), r)])));
        solvable = consistent(a, b, c, d, p, q) && consistent(a, b, c, d, 0, r);
    }
    for (l, r) in &originals {
        let _ = cs.add(Constraint::Equal(Type::Dimension(l.clone()), Type::Dimension(r.clone())));
    }
    let result = cs.solve();
    cover("c02-solver-returned");
    match result {
        Ok((substitution, _)) => {
            cover("c02-solved");
            check(solvable, "accepts-only-consistent-systems");
            // soundness: under the returned substitution both sides of every equation are the same dimension
            for (l, r) in &originals {
                let mut l2 = l.clone();
                let mut r2 = r.clone();
                let ok = l2.apply(&substitution).is_ok() && r2.apply(&substitution).is_ok();
                check(ok, "substitution-applies");
                check(l2 == r2, "substitution-makes-both-sides-equal");
            }
        }
        Err(_) => {
            cover("c02-rejected");
            check(!solvable, "rejects-only-inconsistent-systems");
        }
    }
}
