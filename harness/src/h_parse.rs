//! C10 — parsing follows the documented grammar and precedence table.
//!
//! The REAL parser (`Parser::parse` through the `verif_parse_tokens` hook) runs on a token stream
//! whose token kinds are symbolic; an independent table-driven reference parser (operator table
//! transcribed from book/src/basics/operations.md, see `LEVELS`) runs on the same symbolic kinds.
//! Both syntax trees are rendered to a canonical S-expression and compared; if the reference rejects
//! the sequence the real parser must reject it too, and vice versa.
//!
//!   cfg 0 = pattern, one item per token, space separated:
//!           "s"  symbolic over the whole alphabet,  "o" symbolic over the operator subset,
//!           "<n>" the fixed kind with alphabet index n
//!   u64 i = alphabet index of token i (for symbolic positions)

use numbat::verif_hooks::ast::{BinaryOperator, Expression, Statement, StringPart, UnaryOperator};
use numbat::verif_hooks::parser::verif_parse_tokens;
use numbat::verif_hooks::span::{ByteIndex, Span};
use numbat::verif_hooks::tokenizer::{Token, TokenKind};

use crate::sym::*;

// ------------------------------------------------------------------ alphabet
pub const NUM: u64 = 0;
pub const ID: u64 = 1;
pub const LP: u64 = 2;
pub const RP: u64 = 3;
pub const PLUS: u64 = 4;
pub const MINUS: u64 = 5;
pub const MUL: u64 = 6;
pub const DIV: u64 = 7;
pub const POW: u64 = 8;
pub const PER: u64 = 9;
pub const ARROW: u64 = 10;
pub const TO: u64 = 11;
pub const PIPE: u64 = 12;
pub const UEXP: u64 = 13;
pub const BANG: u64 = 14;
pub const EQEQ: u64 = 15;
pub const NEQ: u64 = 16;
pub const LT: u64 = 17;
pub const GT: u64 = 18;
pub const LE: u64 = 19;
pub const GE: u64 = 20;
pub const AND: u64 = 21;
pub const OR: u64 = 22;
pub const IF: u64 = 23;
pub const THEN: u64 = 24;
pub const ELSE: u64 = 25;
pub const COMMA: u64 = 26;
pub const PERIOD: u64 = 27;
pub const HOLE: u64 = 28;
pub const TRUE: u64 = 29;
pub const FALSE: u64 = 30;
pub const LB: u64 = 31;
pub const RB: u64 = 32;
pub const NAN: u64 = 33;
pub const INF: u64 = 34;
pub const STR: u64 = 35;
pub const EQUAL: u64 = 36;
pub const K: u64 = 37;

pub fn alphabet() -> Vec<(TokenKind, &'static str)> {
    vec![
        (TokenKind::Number, "1"),
        (TokenKind::Identifier, "x"),
        (TokenKind::LeftParen, "("),
        (TokenKind::RightParen, ")"),
        (TokenKind::Plus, "+"),
        (TokenKind::Minus, "-"),
        (TokenKind::Multiply, "*"),
        (TokenKind::Divide, "/"),
        (TokenKind::Power, "^"),
        (TokenKind::Per, "per"),
        (TokenKind::Arrow, "->"),
        (TokenKind::To, "to"),
        (TokenKind::PostfixApply, "|>"),
        (TokenKind::UnicodeExponent, "²"),
        (TokenKind::ExclamationMark, "!"),
        (TokenKind::EqualEqual, "=="),
        (TokenKind::NotEqual, "!="),
        (TokenKind::LessThan, "<"),
        (TokenKind::GreaterThan, ">"),
        (TokenKind::LessOrEqual, "<="),
        (TokenKind::GreaterOrEqual, ">="),
        (TokenKind::LogicalAnd, "&&"),
        (TokenKind::LogicalOr, "||"),
        (TokenKind::If, "if"),
        (TokenKind::Then, "then"),
        (TokenKind::Else, "else"),
        (TokenKind::Comma, ","),
        (TokenKind::Period, "."),
        (TokenKind::QuestionMark, "?"),
        (TokenKind::True, "true"),
        (TokenKind::False, "false"),
        (TokenKind::LeftBracket, "["),
        (TokenKind::RightBracket, "]"),
        (TokenKind::NaN, "NaN"),
        (TokenKind::Inf, "inf"),
        (TokenKind::StringFixed, "\"s\""),
        (TokenKind::Equal, "="),
    ]
}

/// operator subset used for "o" positions (everything that is not an operand or a bracket)
pub const OPS: [u64; 23] = [
    PLUS, MINUS, MUL, DIV, POW, PER, ARROW, TO, PIPE, UEXP, BANG, EQEQ, NEQ, LT, GT, LE, GE, AND, OR, IF, THEN,
    ELSE, PERIOD,
];

fn sp(i: usize) -> Span {
    Span {
        start: ByteIndex(i as u32),
        end: ByteIndex(i as u32),
        code_source_id: 0,
    }
}

/// discriminant byte of every alphabet kind, read from the real `TokenKind` values at run time;
/// symbolic token kinds ARE these bytes (no table indirection in the solver queries)
static mut TAGS: [u64; K as usize] = [0; K as usize];

pub fn init_tags() {
    assert!(std::mem::size_of::<TokenKind>() == 2);
    for (i, (k, _)) in alphabet().iter().enumerate() {
        let b: [u8; 2] = unsafe { std::mem::transmute_copy(k) };
        unsafe { TAGS[i] = b[0] as u64 };
    }
}

#[inline(always)]
pub fn tag(i: u64) -> u64 {
    unsafe { TAGS[i as usize] }
}

/// tokens for the (possibly symbolic) kind tags `ks`, followed by Eof
pub fn make_tokens(ks: &[u64]) -> Vec<Token<'static>> {
    let a = alphabet();
    let lex = |i: u64| (a[i as usize].1.as_ptr() as usize, a[i as usize].1.len());
    let (xp, xl) = lex(ID);
    let (np, nl) = lex(NUM);
    let (up, ul) = lex(UEXP);
    let (sp_, sl) = lex(STR);
    let mut v = Vec::with_capacity(ks.len() + 1);
    for (i, &k) in ks.iter().enumerate() {
        let kind: TokenKind = unsafe { std::mem::transmute([k as u8, 0u8]) };
        // the lexeme matters for numbers, unicode exponents and strings only; selected arithmetically
        // (no branch) so that a symbolic kind does not split the path here
        let m_n = ((k == tag(NUM)) as usize).wrapping_neg();
        let m_u = ((k == tag(UEXP)) as usize).wrapping_neg();
        let m_s = ((k == tag(STR)) as usize).wrapping_neg();
        let m_o = !(m_n | m_u | m_s);
        let p = (xp & m_o) | (np & m_n) | (up & m_u) | (sp_ & m_s);
        let l = (xl & m_o) | (nl & m_n) | (ul & m_u) | (sl & m_s);
        let lexeme: &'static str = unsafe { std::str::from_utf8_unchecked(std::slice::from_raw_parts(p as *const u8, l)) };
        v.push(Token {
            kind,
            lexeme,
            span: sp(i),
        });
    }
    v.push(Token {
        kind: TokenKind::Eof,
        lexeme: "",
        span: sp(ks.len()),
    });
    v
}

/// like `make_tokens`, but Number tokens are the literal 2 and an Identifier token at position i carries the lexeme `names[i mod len]` (the position is
/// concrete, so a symbolic kind does not split the path here either)
pub fn make_tokens_named(ks: &[u64], names: &[&'static str]) -> Vec<Token<'static>> {
    let a = alphabet();
    let lex = |i: u64| (a[i as usize].1.as_ptr() as usize, a[i as usize].1.len());
    let two: &'static str = "2";
    let (np, nl) = (two.as_ptr() as usize, two.len());
    let (up, ul) = lex(UEXP);
    let (sp_, sl) = lex(STR);
    let mut v = Vec::with_capacity(ks.len() + 1);
    for (i, &k) in ks.iter().enumerate() {
        let kind: TokenKind = unsafe { std::mem::transmute([k as u8, 0u8]) };
        let name = names[i % names.len()];
        let (xp, xl) = (name.as_ptr() as usize, name.len());
        let m_n = ((k == tag(NUM)) as usize).wrapping_neg();
        let m_u = ((k == tag(UEXP)) as usize).wrapping_neg();
        let m_s = ((k == tag(STR)) as usize).wrapping_neg();
        let m_o = !(m_n | m_u | m_s);
        let p = (xp & m_o) | (np & m_n) | (up & m_u) | (sp_ & m_s);
        let l = (xl & m_o) | (nl & m_n) | (ul & m_u) | (sl & m_s);
        let lexeme: &'static str = unsafe { std::str::from_utf8_unchecked(std::slice::from_raw_parts(p as *const u8, l)) };
        v.push(Token {
            kind,
            lexeme,
            span: sp(i),
        });
    }
    v.push(Token {
        kind: TokenKind::Eof,
        lexeme: "",
        span: sp(ks.len()),
    });
    v
}

// ------------------------------------------------------------------ canonical form of the real tree
fn scalar_name(v: f64) -> String {
    if v.is_nan() {
        "nan".into()
    } else if v.is_infinite() {
        "inf".into()
    } else if v == 1.0 {
        "n".into()
    } else {
        format!("#{}", v as i64)
    }
}

fn binop_name(op: BinaryOperator) -> &'static str {
    match op {
        BinaryOperator::Add => "+",
        BinaryOperator::Sub => "-",
        BinaryOperator::Mul => "*",
        BinaryOperator::Div => "/",
        BinaryOperator::Power => "^",
        BinaryOperator::ConvertTo => "->",
        BinaryOperator::LessThan => "<",
        BinaryOperator::GreaterThan => ">",
        BinaryOperator::LessOrEqual => "<=",
        BinaryOperator::GreaterOrEqual => ">=",
        BinaryOperator::Equal => "==",
        BinaryOperator::NotEqual => "!=",
        BinaryOperator::LogicalAnd => "&&",
        BinaryOperator::LogicalOr => "||",
    }
}

fn render(e: &Expression, out: &mut String) {
    match e {
        Expression::Scalar(_, n) => out.push_str(&scalar_name(n.to_f64())),
        Expression::Identifier(_, _) => out.push('x'),
        Expression::UnitIdentifier { .. } => out.push_str("<unit>"),
        Expression::TypedHole(_) => out.push('?'),
        Expression::UnaryOperator { op, expr, .. } => {
            match op {
                UnaryOperator::Negate => out.push_str("(neg "),
                UnaryOperator::LogicalNeg => out.push_str("(not "),
                UnaryOperator::Factorial(n) => out.push_str(&format!("(fact{} ", n.get())),
            }
            render(expr, out);
            out.push(')');
        }
        Expression::BinaryOperator { op, lhs, rhs, .. } => {
            out.push('(');
            out.push_str(binop_name(*op));
            out.push(' ');
            render(lhs, out);
            out.push(' ');
            render(rhs, out);
            out.push(')');
        }
        Expression::FunctionCall { callable, args, .. } => {
            out.push_str("(call ");
            render(callable, out);
            for a in args {
                out.push(' ');
                render(a, out);
            }
            out.push(')');
        }
        Expression::Boolean(_, b) => out.push(if *b { 't' } else { 'f' }),
        Expression::String(_, parts) => {
            out.push_str("(str");
            for p in parts {
                match p {
                    StringPart::Fixed(s) => out.push_str(&format!(" {:?}", s.as_str())),
                    StringPart::Interpolation { expr, .. } => {
                        out.push(' ');
                        render(expr, out);
                    }
                }
            }
            out.push(')');
        }
        Expression::Condition {
            condition,
            then_expr,
            else_expr,
            ..
        } => {
            out.push_str("(if ");
            render(condition, out);
            out.push(' ');
            render(then_expr, out);
            out.push(' ');
            render(else_expr, out);
            out.push(')');
        }
        Expression::InstantiateStruct { fields, .. } => {
            out.push_str("(struct");
            for (_, _, e) in fields {
                out.push(' ');
                render(e, out);
            }
            out.push(')');
        }
        Expression::AccessField { expr, .. } => {
            out.push_str("(field ");
            render(expr, out);
            out.push(')');
        }
        Expression::List(_, elems) => {
            out.push_str("(list");
            for e in elems {
                out.push(' ');
                render(e, out);
            }
            out.push(')');
        }
    }
}

// ------------------------------------------------------------------ reference parser
/// Binary operator levels from LOW to HIGH precedence, as documented in operations.md
/// (rows "unit conversion" … "division per"); every level is left-associative. `*` and `/`
/// (and `+` and `-`) share a level, as in ordinary arithmetic.
const LEVELS: [&[(u64, &str)]; 8] = [
    &[(ARROW, "->"), (TO, "->")],
    &[(OR, "||")],
    &[(AND, "&&")],
    &[(EQEQ, "=="), (NEQ, "!="), (LT, "<"), (GT, ">"), (LE, "<="), (GE, ">=")],
    &[(PLUS, "+"), (MINUS, "-")],
    &[(MUL, "*"), (DIV, "/")],
    &[(PER, "/")],
    &[],
];
/// `!x` (logical negation) sits between `&&` (level 2) and the comparisons (level 3)
const LNEG_ABOVE_LEVEL: usize = 3;

struct Ref<'a> {
    ks: &'a [u64],
    pos: usize,
}

type R = Result<String, ()>;

impl<'a> Ref<'a> {
    fn peek(&self) -> u64 {
        if self.pos < self.ks.len() {
            self.ks[self.pos]
        } else {
            u64::MAX // Eof
        }
    }
    fn eat(&mut self, k: u64) -> bool {
        if self.peek() == tag(k) {
            self.pos += 1;
            true
        } else {
            false
        }
    }

    /// reverse function call: lowest precedence, left-associative, right-hand side is a name or a call
    fn expr(&mut self) -> R {
        let mut e = self.cond()?;
        while self.eat(PIPE) {
            let target = self.postfix_chain()?;
            if target == "x" {
                e = format!("(call {} {})", target, e);
            } else if target.starts_with("(call ") {
                // f(a, b) with the piped value appended as last argument
                let inner = &target[..target.len() - 1];
                e = format!("{} {})", inner, e);
            } else {
                return Err(());
            }
        }
        Ok(e)
    }

    fn cond(&mut self) -> R {
        if self.eat(IF) {
            let c = self.binary(0)?;
            if !self.eat(THEN) {
                return Err(());
            }
            let t = self.cond()?;
            if !self.eat(ELSE) {
                return Err(());
            }
            let e = self.cond()?;
            Ok(format!("(if {} {} {})", c, t, e))
        } else {
            self.binary(0)
        }
    }

    /// precedence climbing over the binary operator table
    fn binary(&mut self, level: usize) -> R {
        if level == LNEG_ABOVE_LEVEL && self.peek() == tag(BANG) {
            self.pos += 1;
            let inner = self.binary(level)?;
            return Ok(format!("(not {})", inner));
        }
        if level >= LEVELS.len() - 1 {
            return self.unary();
        }
        let mut lhs = self.binary(level + 1)?;
        loop {
            let k = self.peek();
            let mut name = None;
            for (op, n) in LEVELS[level] {
                if k == tag(*op) {
                    name = Some(*n);
                }
            }
            match name {
                None => return Ok(lhs),
                Some(n) => {
                    self.pos += 1;
                    let rhs = self.binary(level + 1)?;
                    lhs = format!("({} {} {})", n, lhs, rhs);
                }
            }
        }
    }

    /// unary minus is looser than implicit multiplication, powers and factorials
    fn unary(&mut self) -> R {
        if self.eat(MINUS) {
            let e = self.unary()?;
            Ok(format!("(neg {})", e))
        } else if self.eat(PLUS) {
            self.unary()
        } else {
            self.implicit_mul()
        }
    }

    fn starts_operand_of_implicit_mul(&self) -> bool {
        let k = self.peek();
        k == tag(NUM) || k == tag(ID) || k == tag(LP) || k == tag(HOLE)
    }

    fn implicit_mul(&mut self) -> R {
        let mut e = self.power()?;
        while self.starts_operand_of_implicit_mul() {
            let r = self.power()?;
            e = format!("(* {} {})", e, r);
        }
        Ok(e)
    }

    /// right-associative; the exponent may carry its own minus sign
    fn power(&mut self) -> R {
        let base = self.factorial()?;
        if self.eat(POW) {
            let neg = self.eat(MINUS);
            let mut ex = self.power()?;
            if neg {
                ex = format!("(neg {})", ex);
            }
            Ok(format!("(^ {} {})", base, ex))
        } else {
            Ok(base)
        }
    }

    fn factorial(&mut self) -> R {
        let mut e = self.unicode_exp()?;
        let mut order = 0;
        while self.eat(BANG) {
            order += 1;
        }
        if order > 0 {
            e = format!("(fact{} {})", order, e);
        }
        Ok(e)
    }

    fn unicode_exp(&mut self) -> R {
        let e = self.postfix_chain()?;
        if self.eat(UEXP) {
            Ok(format!("(^ {} #2)", e))
        } else {
            Ok(e)
        }
    }

    /// primary followed by calls and field accesses
    fn postfix_chain(&mut self) -> R {
        let mut e = self.primary()?;
        loop {
            if self.eat(LP) {
                let mut s = format!("(call {}", e);
                if !self.eat(RP) {
                    loop {
                        let a = self.expr()?;
                        s.push(' ');
                        s.push_str(&a);
                        if self.eat(COMMA) {
                            if self.eat(RP) {
                                break; // trailing comma
                            }
                            continue;
                        }
                        if self.eat(RP) {
                            break;
                        }
                        return Err(());
                    }
                }
                s.push(')');
                e = s;
            } else if self.eat(PERIOD) {
                if !self.eat(ID) {
                    return Err(());
                }
                e = format!("(field {})", e);
            } else {
                return Ok(e);
            }
        }
    }

    fn primary(&mut self) -> R {
        let k = self.peek();
        let atom = if k == tag(NUM) {
            "n"
        } else if k == tag(ID) {
            "x"
        } else if k == tag(HOLE) {
            "?"
        } else if k == tag(TRUE) {
            "t"
        } else if k == tag(FALSE) {
            "f"
        } else if k == tag(NAN) {
            "nan"
        } else if k == tag(INF) {
            "inf"
        } else if k == tag(STR) {
            "(str \"s\")"
        } else {
            ""
        };
        if !atom.is_empty() {
            self.pos += 1;
            return Ok(atom.into());
        }
        if k == tag(LP) {
            self.pos += 1;
            let e = self.expr()?;
            if !self.eat(RP) {
                return Err(());
            }
            Ok(e) // parentheses leave no trace in the tree
        } else if k == tag(LB) {
            self.pos += 1;
            let mut s = String::from("(list");
            loop {
                if self.eat(RB) {
                    break;
                }
                let e = self.expr()?;
                s.push(' ');
                s.push_str(&e);
                if self.eat(COMMA) {
                    continue;
                }
                if self.peek() == tag(RB) {
                    continue;
                }
                return Err(());
            }
            s.push(')');
            Ok(s)
        } else {
            Err(())
        }
    }
}

fn reference(ks: &[u64]) -> R {
    let mut r = Ref { ks, pos: 0 };
    let e = r.expr()?;
    if r.pos != ks.len() {
        return Err(());
    }
    Ok(e)
}

// ------------------------------------------------------------------ the harness
#[unsafe(no_mangle)]
pub extern "C" fn h_c10_parse() {
    init_tags();
    checkpoint();
    let pattern = cfg(0).expect("cfg 0");
    let mut ks: Vec<u64> = Vec::new();
    for (i, item) in pattern.split_ascii_whitespace().enumerate() {
        if item == "s" || item == "o" {
            let k = u64_(i as u32);
            let mut ok = false;
            if item == "s" {
                for a in 0..K {
                    ok |= k == tag(a);
                }
            } else {
                for a in OPS {
                    ok |= k == tag(a);
                }
            }
            assume(ok);
            ks.push(k);
        } else {
            ks.push(tag(item.parse().expect("kind index")));
        }
    }
    if ks.is_empty() {
        return;
    }
    let tokens = make_tokens(&ks);
    let real: Result<String, ()> = match verif_parse_tokens(&tokens) {
        Ok(stmts) => {
            if stmts.len() == 1 {
                match &stmts[0] {
                    Statement::Expression(e) => {
                        let mut s = String::new();
                        render(e, &mut s);
                        Ok(s)
                    }
                    _ => Ok("<non-expression statement>".into()),
                }
            } else {
                Ok(format!("<{} statements>", stmts.len()))
            }
        }
        Err(_) => Err(()),
    };
    cover("c10-real-parser-finished");
    let want = reference(&ks);
    cover("c10-reference-finished");
    match (&real, &want) {
        (Ok(a), Ok(b)) => {
            cover("c10-both-accept");
            check(a == b, "tree-follows-documented-precedence");
            obs_str("tree", a);
        }
        (Err(_), Err(_)) => {
            cover("c10-both-reject");
        }
        (Ok(a), Err(_)) => {
            obs_str("accepted-as", a);
            check(false, "input-outside-grammar-is-rejected");
        }
        (Err(_), Ok(b)) => {
            obs_str("expected", b);
            check(false, "input-in-grammar-is-accepted");
        }
    }
}
