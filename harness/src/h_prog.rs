//! C09 — compiled programs compute what their source means.
//!
//! Whole programs through the real pipeline (tokenizer … VM). cfg 0 = session prelude, cfg 1 = program text whose
//! scalar literals are holes `__verif_sym(k)`, cfg 2 = template id selecting the reference evaluator below
//! (the language's evaluation rules applied directly to the template, in Rust, on the same symbolic inputs).
//! f64 0..3 = the scalar literals (all doubles unless the template assumes a range).

use numbat::value::Value;

use crate::session::{Outcome, Session};
use crate::sym::*;

enum Ref {
    Num(f64),
    Bool(bool),
    Str(String),
    /// documented value-dependent error (division by zero …): the run must fail at run time
    RuntimeError,
}

fn reference(id: &str, s: [f64; 4]) -> Ref {
    let [a, b, c, d] = s;
    let _ = d;
    match id {
        // innermost binding wins: a redefined global read from a function defined afterwards
        "shadow-global-in-fn" => Ref::Num(c * b),
        // … and from a where-clause
        "shadow-global-in-where" => Ref::Num((b + c) * c),
        // a parameter shadows a global of the same name
        "param-shadows-global" => Ref::Num(b + 1.0),
        // where-clause locals are evaluated per call, in order
        "where-clause" => Ref::Num((a + b) * b),
        "where-two-locals" => Ref::Num((b * a) + (b * a + 1.0) * b),
        // call arguments keep their order
        "argument-order" => Ref::Num((a - b) - c),
        // nested conditionals
        "nested-conditional" => Ref::Num(if a > b { if c > 0.0 { a } else { b } } else { c }),
        // negation of comparisons is evaluated, not rewritten (NaN!)
        "negated-comparison" => Ref::Bool(!(a < b)),
        "negated-comparisons-and" => Ref::Bool(!(a >= b) && !(b > c)),
        "negated-le" => Ref::Bool(!(a <= b) || !(b != c)),
        // && binds tighter than ||
        "and-or" => Ref::Bool((a > 0.0) && (b > 0.0) || (c > 0.0)),
        "or-and-not" => Ref::Bool((a > 0.0) || !(b > 0.0) && (c == a)),
        // conditional on a boolean expression selecting between computed values
        "conditional-arith" => Ref::Num(if a < b && b < c { a + b * c } else { (a - b) / 2.0 }),
        // bounded recursion (depth decided by the symbolic argument, assumed in [0, 3.5])
        "recursion-sum" => {
            let mut n = a;
            let mut stack: Vec<f64> = Vec::new();
            while !(n < 1.0) {
                stack.push(n);
                n -= 1.0;
            }
            let mut r = 0.0;
            while let Some(v) = stack.pop() {
                r = v + r;
            }
            Ref::Num(r)
        }
        // function values and reverse application
        "function-value" => Ref::Num((b + a) + a),
        "reverse-application" => Ref::Num((b + a) * c),
        // struct fields keep their declared meaning whatever the order at instantiation
        "struct-fields" => Ref::Num(a - b * c),
        "struct-nested-access" => Ref::Num(c + a),
        // field access directly on a struct literal whose fields are written in another order than declared
        "struct-literal-direct-access" => Ref::Num(a - b),
        // a builtin with asymmetric parameters called through a function value keeps its argument order
        "builtin-via-function-value" => Ref::Num(b),
        "builtin-via-fn-parameter" => Ref::Num(c - a),
        // nested calls: each frame sees its own arguments
        "nested-call-frames" => Ref::Num((b * a) + (c * a) - b),
        // lists: element order
        "list-head-tail" => Ref::Num(b),
        "list-cons" => Ref::Num(c - a),
        "list-len" => Ref::Num(3.0),
        // strings: parts keep their order; booleans and strings interpolate
        "string-interpolation" => Ref::Str(format!("{} and x/{}", a > b, b > a)),
        // division by zero is a run-time error, not a value
        "division" => {
            if b == 0.0 {
                Ref::RuntimeError
            } else {
                Ref::Num(a / b)
            }
        }
        _ => panic!("unknown template"),
    }
}

fn same_num(x: f64, y: f64) -> bool {
    x.to_bits() == y.to_bits() || (x.is_nan() && y.is_nan()) || (x == 0.0 && y == 0.0)
}

#[unsafe(no_mangle)]
pub extern "C" fn h_c09_prog() {
    let mut s = Session::new(&cfg(0).expect("cfg 0"));
    checkpoint();
    let prog = cfg(1).expect("cfg 1");
    let id = cfg(2).expect("cfg 2");
    let inputs = [f64_(0), f64_(1), f64_(2), f64_(3)];
    if id.trim() == "recursion-sum" {
        assume(inputs[0] >= 0.0 && inputs[0] <= 3.5);
    }
    let want = reference(id.trim(), inputs);
    let got = s.run(&prog);
    cover("c09-program-evaluated");
    match (got, want) {
        (Outcome::Value(Value::Quantity(q)), Ref::Num(w)) => {
            check(same_num(q.unsafe_value().to_f64(), w), "value-equals-source-semantics");
            check(q.unit().is_scalar(), "scalar-program-yields-scalar");
        }
        (Outcome::Value(Value::Boolean(b)), Ref::Bool(w)) => check(b == w, "value-equals-source-semantics"),
        (Outcome::Value(Value::String(st)), Ref::Str(w)) => check(st.as_str() == w, "value-equals-source-semantics"),
        (Outcome::Runtime(_), Ref::RuntimeError) => cover("c09-documented-runtime-error"),
        (Outcome::Runtime(_), _) => check(false, "no-runtime-error-where-source-has-a-value"),
        (Outcome::TypeError, _) | (Outcome::NameError, _) | (Outcome::ResolverError, _) => check(false, "template-is-accepted"),
        _ => check(false, "value-kind-equals-source-semantics"),
    }
}
