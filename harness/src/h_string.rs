//! C15 (kernel) — the echoed form of a string literal reads back as the same string.
//!
//!   cfg 0 = number of characters n; u64 i = character i, symbolic over the alphabet below (every character the
//!   escaping / unescaping code distinguishes, their escape letters, and ordinary characters)

use numbat::pretty_print::escape_numbat_string;
use numbat::verif_hooks::ast::{Expression, Statement, StringPart};
use numbat::verif_hooks::parser::verif_parse_tokens;
use numbat::verif_hooks::tokenizer::{tokenize, TokenKind};

use crate::sym::*;

const ALPHABET: &[u8] = b"\"\\{}nrt0a \n\r\t\0";

#[unsafe(no_mangle)]
pub extern "C" fn h_c15_string() {
    checkpoint();
    let n: usize = cfg(0).expect("cfg 0").trim().parse().unwrap();
    let mut s = String::new();
    for i in 0..n {
        let b = u64_(i as u32);
        let mut ok = false;
        for &x in ALPHABET {
            ok |= b == x as u64;
        }
        assume(ok);
        if i == 0 {
            if let Some(first) = cfg(1) {
                // the plan may pin the first character per case (more cases, fewer paths per case)
                assume(b == first.trim().parse::<u64>().expect("first character"));
            }
        }
        s.push(b as u8 as char);
    }
    // the echoed literal
    let echoed = format!("\"{}\"", escape_numbat_string(&s));
    cover("c15-escaped");
    let tokens = match tokenize(&echoed, 0) {
        Ok(t) => t,
        Err(_) => {
            check(false, "echoed-string-literal-tokenizes");
            return;
        }
    };
    check(tokens.len() == 2 && tokens[0].kind == TokenKind::StringFixed, "echoed-string-is-one-plain-string-literal");
    if !(tokens.len() == 2 && tokens[0].kind == TokenKind::StringFixed) {
        return;
    }
    match verif_parse_tokens(&tokens) {
        Ok(stmts) => {
            let back: Option<String> = match stmts.as_slice() {
                [Statement::Expression(Expression::String(_, parts))] => {
                    let mut acc = String::new();
                    let mut plain = true;
                    for p in parts {
                        match p {
                            StringPart::Fixed(f) => acc.push_str(f.as_str()),
                            _ => plain = false,
                        }
                    }
                    if plain { Some(acc) } else { None }
                }
                _ => None,
            };
            match back {
                Some(b) => {
                    cover("c15-read-back");
                    check(b == s, "echoed-string-reads-back-as-the-same-string");
                    // and echoing what was read back reproduces the same text
                    check(format!("\"{}\"", escape_numbat_string(&b)) == echoed, "echo-is-a-fixed-point");
                }
                None => check(false, "echoed-string-parses-as-a-plain-string"),
            }
        }
        Err(_) => check(false, "echoed-string-literal-parses"),
    }
}
