//! Harness intrinsics.
//!
//! Under LLSE every `verif_*` function below is intercepted *by name* and given its symbolic
//! meaning (fresh symbolic value, solver query, path constraint …); the bodies here are the
//! *native* meaning used for the catalog, for replaying solver models against the real build and
//! for the differential self-test: inputs come from a replay file (`VERIF_REPLAY`), assertions
//! and observations are printed to stdout.
#![allow(dead_code)]

use std::collections::HashMap;
use std::sync::OnceLock;

struct Inputs {
    f64s: HashMap<u32, u64>,
    u64s: HashMap<u32, u64>,
    cfgs: HashMap<u32, String>,
}

static INPUTS: OnceLock<Inputs> = OnceLock::new();

fn inputs() -> &'static Inputs {
    INPUTS.get_or_init(|| {
        let mut inp = Inputs {
            f64s: HashMap::new(),
            u64s: HashMap::new(),
            cfgs: HashMap::new(),
        };
        if let Ok(path) = std::env::var("VERIF_REPLAY") {
            let text = std::fs::read_to_string(&path).expect("replay file readable");
            for line in text.lines() {
                let mut it = line.splitn(3, ' ');
                let kind = it.next().unwrap_or("");
                let id: u32 = match it.next().and_then(|s| s.parse().ok()) {
                    Some(i) => i,
                    None => continue,
                };
                let rest = it.next().unwrap_or("");
                match kind {
                    "f64" => {
                        let bits = u64::from_str_radix(rest.trim_start_matches("0x"), 16).unwrap();
                        inp.f64s.insert(id, bits);
                    }
                    "u64" => {
                        inp.u64s.insert(id, rest.parse().unwrap());
                    }
                    "cfg" => {
                        // "\n" and "\\" escapes (configuration strings may span several lines)
                        let mut s = String::new();
                        let mut it = rest.chars();
                        while let Some(c) = it.next() {
                            if c == '\\' {
                                match it.next() {
                                    Some('n') => s.push('\n'),
                                    Some(o) => s.push(o),
                                    None => {}
                                }
                            } else {
                                s.push(c);
                            }
                        }
                        inp.cfgs.insert(id, s);
                    }
                    _ => {}
                }
            }
        }
        inp
    })
}

// ------------------------------------------------------------------ raw intrinsics (C ABI)

#[unsafe(no_mangle)]
#[inline(never)]
pub extern "C" fn verif_f64(id: u32) -> f64 {
    f64::from_bits(*inputs().f64s.get(&id).unwrap_or(&0))
}

#[unsafe(no_mangle)]
#[inline(never)]
pub extern "C" fn verif_u64(id: u32) -> u64 {
    *inputs().u64s.get(&id).unwrap_or(&0)
}

/// One feasible value of `v` under the current path: natively the identity; under LLSE the solver supplies a witness
/// and the path continues with `v` fixed to it (used for inputs the code under test no longer looks at).
#[unsafe(no_mangle)]
#[inline(never)]
pub extern "C" fn verif_pick(v: u64) -> u64 {
    let mut x = v;
    unsafe {
        std::ptr::write_volatile(&mut x, v);
        std::ptr::read_volatile(&x)
    }
}

#[unsafe(no_mangle)]
#[inline(never)]
pub extern "C" fn verif_assume(c: bool) {
    if !c {
        println!("ASSUME-FALSE");
        std::process::exit(3);
    }
}

#[unsafe(no_mangle)]
#[inline(never)]
pub extern "C" fn verif_assert(c: bool, tag: *const u8, len: usize) {
    let t = unsafe { std::str::from_utf8_unchecked(std::slice::from_raw_parts(tag, len)) };
    if c {
        println!("ASSERT-OK {t}");
    } else {
        println!("ASSERT-FAIL {t}");
    }
}

#[unsafe(no_mangle)]
#[inline(never)]
pub extern "C" fn verif_cover(tag: *const u8, len: usize) {
    let t = unsafe { std::str::from_utf8_unchecked(std::slice::from_raw_parts(tag, len)) };
    println!("COVER {t}");
}

#[unsafe(no_mangle)]
#[inline(never)]
pub extern "C" fn verif_observe_u64(tag: *const u8, len: usize, v: u64) {
    let t = unsafe { std::str::from_utf8_unchecked(std::slice::from_raw_parts(tag, len)) };
    println!("OBS {t} u64 {v}");
}

#[unsafe(no_mangle)]
#[inline(never)]
pub extern "C" fn verif_observe_f64(tag: *const u8, len: usize, v: f64) {
    let t = unsafe { std::str::from_utf8_unchecked(std::slice::from_raw_parts(tag, len)) };
    if v.is_nan() {
        println!("OBS {t} f64 nan");
    } else {
        println!("OBS {t} f64 0x{:016x}", v.to_bits());
    }
}

#[unsafe(no_mangle)]
#[inline(never)]
pub extern "C" fn verif_observe_str(tag: *const u8, len: usize, p: *const u8, n: usize) {
    let t = unsafe { std::str::from_utf8_unchecked(std::slice::from_raw_parts(tag, len)) };
    let s = unsafe { std::slice::from_raw_parts(p, n) };
    let mut hex = String::new();
    for b in s {
        hex.push_str(&format!("{b:02x}"));
    }
    println!("OBS {t} str {hex}");
}

/// Copies configuration string `id` of the current case into `buf`; returns its length
/// (`usize::MAX` if absent).
#[unsafe(no_mangle)]
#[inline(never)]
pub extern "C" fn verif_cfg(id: u32, buf: *mut u8, cap: usize) -> usize {
    match inputs().cfgs.get(&id) {
        None => usize::MAX,
        Some(s) => {
            let n = s.len().min(cap);
            unsafe { std::ptr::copy_nonoverlapping(s.as_ptr(), buf, n) };
            s.len()
        }
    }
}

/// Under LLSE: the point where the set-up state is shared by all cases (one forked child per
/// case). Natively a no-op.
#[unsafe(no_mangle)]
#[inline(never)]
pub extern "C" fn verif_checkpoint() {
    // a volatile store keeps the call from being optimised away as a no-op
    unsafe { std::ptr::write_volatile(&raw mut CHECKPOINTS, 1) };
}
static mut CHECKPOINTS: u32 = 0;

// ------------------------------------------------------------------ safe wrappers

pub fn f64_(id: u32) -> f64 {
    verif_f64(id)
}
pub fn u64_(id: u32) -> u64 {
    verif_u64(id)
}
pub fn u8_(id: u32) -> u8 {
    let v = verif_u64(id);
    verif_assume(v < 256);
    v as u8
}
pub fn bool_(id: u32) -> bool {
    let v = verif_u64(id);
    verif_assume(v < 2);
    v == 1
}
pub fn pick(v: u64) -> u64 {
    verif_pick(v)
}
pub fn assume(c: bool) {
    verif_assume(c)
}
pub fn check(c: bool, tag: &'static str) {
    verif_assert(c, tag.as_ptr(), tag.len())
}
pub fn cover(tag: &'static str) {
    verif_cover(tag.as_ptr(), tag.len())
}
pub fn obs_u64(tag: &'static str, v: u64) {
    verif_observe_u64(tag.as_ptr(), tag.len(), v)
}
pub fn obs_f64(tag: &'static str, v: f64) {
    verif_observe_f64(tag.as_ptr(), tag.len(), v)
}
pub fn obs_str(tag: &'static str, s: &str) {
    verif_observe_str(tag.as_ptr(), tag.len(), s.as_ptr(), s.len())
}
pub fn cfg(id: u32) -> Option<String> {
    let mut buf = vec![0u8; 1 << 16];
    let n = verif_cfg(id, buf.as_mut_ptr(), buf.len());
    if n == usize::MAX {
        return None;
    }
    buf.truncate(n);
    Some(String::from_utf8(buf).expect("cfg is utf-8"))
}
pub fn checkpoint() {
    verif_checkpoint()
}
