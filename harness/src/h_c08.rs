//! C08 — no input crashes or hangs the interpreter (kernels with symbolic inputs).
//!
//! h_c08_factorial       compile + run of `x!…!` with a symbolic order (number of '!'):
//!                       cfg 0 = x (concrete), cfg 1 = lower bound of the order; u64 0 = order
//! h_c08_factorial_text  the same input as SOURCE TEXT through Context::interpret (native only):
//!                       decides whether a kernel finding is reachable through the public API
//! h_c08_exponent        run-time rational exponent arithmetic of units with symbolic 128-bit integer
//!                       exponents: u64 0..3 = (hi, lo) of the two exponents; cfg 0 = operation
//! h_c08_dtype           the checker's dimension-exponent arithmetic (DType::try_* must never panic):
//!                       u64 0..3 as above; cfg 0 = operation

use std::num::NonZeroUsize;

use numbat::verif_hooks::arithmetic::{Power, Rational};
use numbat::verif_hooks::ast::UnaryOperator;
use numbat::verif_hooks::bytecode_interpreter::BytecodeInterpreter;
use numbat::verif_hooks::number::Number;
use numbat::verif_hooks::prefix_parser::AcceptsPrefix;
use numbat::verif_hooks::span::{ByteIndex, Span};
use numbat::verif_hooks::type_scheme::TypeScheme;
use numbat::verif_hooks::typed_ast::{DType, Expression, Type};
use numbat::verif_hooks::unit::{CanonicalName, Unit};
use numbat::value::Value;
use numbat::InterpreterResult;

use crate::sym::*;

fn sp() -> Span {
    Span {
        start: ByteIndex(0),
        end: ByteIndex(0),
        code_source_id: 0,
    }
}

/// multifactorial x·(x−k)·(x−2k)·… with the TRUE order k, for a small concrete integer x.
/// Written as a case split on the (symbolic) order so that the expected value is concrete on every path:
/// orders >= x all give x itself.
fn multifactorial(x: f64, order: u64) -> f64 {
    let xi = x as u64;
    let mut k = 1u64;
    while k < xi {
        if order == k {
            let mut v = xi;
            let mut r = 1f64;
            loop {
                r *= v as f64;
                if v <= k {
                    break;
                }
                v -= k;
            }
            return r;
        }
        k += 1;
    }
    if xi == 0 { 1.0 } else { x }
}

fn fact_inputs() -> (f64, u64) {
    let x: f64 = cfg(0).expect("cfg 0").trim().parse().unwrap();
    let lo: u64 = cfg(1).expect("cfg 1").trim().parse().unwrap();
    let order = u64_(0);
    // inputs of up to 1 MiB of '!' (longer inputs are outside the stated bound)
    assume(order >= lo && order >= 1 && order <= (1 << 20));
    if let Some(hi) = cfg(2) {
        assume(order <= hi.trim().parse::<u64>().unwrap());
    }
    (x, order)
}

#[unsafe(no_mangle)]
pub extern "C" fn h_c08_factorial() {
    checkpoint();
    let (x, order) = fact_inputs();
    let scalar = TypeScheme::make_quantified(Type::scalar());
    let expr = Expression::UnaryOperator {
        span: sp(),
        op: UnaryOperator::Factorial(NonZeroUsize::new(order as usize).unwrap()),
        expr: Box::new(Expression::Scalar {
            span: sp(),
            value: Number::from_f64(x),
            type_scheme: scalar.clone(),
        }),
        type_scheme: scalar,
    };
    // exhaustive case split on the low 16 bits of the order (what a 16 bit operand can hold) below x:
    // keeps the factorial loop's floating-point arithmetic concrete on each path
    let low = order & 0xffff;
    let mut k = 0u64;
    while k < x as u64 {
        if low == k {
            cover("c08-factorial-low-bits-below-x");
            break;
        }
        obs_u64("low-bits-not", k);
        k += 1;
    }
    let mut interp = BytecodeInterpreter::verif_new();
    let r = interp.verif_run_expression(&expr);
    cover("c08-factorial-evaluated");
    match r {
        Ok(InterpreterResult::Value(Value::Quantity(q))) => {
            let got = q.unsafe_value().to_f64();
            let want = multifactorial(x, order);
            check(got == want || (got.is_nan() && want.is_nan()), "factorial-uses-the-written-order");
        }
        _ => check(false, "factorial-of-non-negative-integer-succeeds"),
    }
}

#[unsafe(no_mangle)]
pub extern "C" fn h_c08_factorial_text() {
    use numbat::module_importer::BuiltinModuleImporter;
    use numbat::resolver::CodeSource;
    use numbat::Context;
    checkpoint();
    let (x, order) = fact_inputs();
    let mut text = format!("{}", x);
    for _ in 0..order {
        text.push('!');
    }
    let mut ctx = Context::new(BuiltinModuleImporter::default());
    let r = ctx.interpret(&text, CodeSource::Text);
    cover("c08-factorial-evaluated");
    match r {
        Ok((_, InterpreterResult::Value(Value::Quantity(q)))) => {
            let got = q.unsafe_value().to_f64();
            let want = multifactorial(x, order);
            check(got == want || (got.is_nan() && want.is_nan()), "factorial-uses-the-written-order");
        }
        Ok(_) => check(false, "factorial-of-non-negative-integer-succeeds"),
        Err(_) => {
            // a reported error is an acceptable outcome for the property ("a result or a reported error")
            cover("c08-factorial-text-rejected-with-error");
        }
    }
}

/// a symbolic exponent g·2^74 with |g| <= 2^52: integers up to 2^126 that a numeric literal in source
/// text denotes exactly (exactly representable doubles), so kernel findings can be replayed as text
fn i128_input(hi: u32, lo: u32) -> i128 {
    let g = u64_(hi) as i64;
    let l = u64_(lo);
    assume(l == 0);
    assume(g >= -(1i64 << 52) && g <= (1i64 << 52));
    (g as i128) << 74
}

fn base_unit(name: &str, short: &str) -> Unit {
    Unit::new_base(name.into(), CanonicalName::new(short, AcceptsPrefix::only_short()))
}

/// Run-time exponent arithmetic: results are either computed or the operation is refused; it must
/// not abort on an arithmetic overflow (checked build) for any exponents.
#[unsafe(no_mangle)]
pub extern "C" fn h_c08_exponent() {
    checkpoint();
    let op = cfg(0).expect("cfg 0");
    let n = i128_input(0, 1);
    let m = i128_input(2, 3);
    let metre = base_unit("metre", "m");
    let second = base_unit("second", "s");
    cover("c08-exponent-start");
    match op.trim() {
        "power-of-power" => {
            // (m^n)^k
            let u = metre.power(Rational::from_integer(n));
            let v = u.power(Rational::from_integer(m));
            obs_u64("factors", v.iter().count() as u64);
        }
        "mul-merge" => {
            // m^n · m^k : canonicalisation adds the exponents
            let u = metre.clone().power(Rational::from_integer(n)) * metre.power(Rational::from_integer(m));
            let c = u.canonicalized();
            obs_u64("factors", c.iter().count() as u64);
        }
        _ => {
            // (m^n / s^k) -> base representation
            let u = metre.power(Rational::from_integer(n)) / second.power(Rational::from_integer(m));
            let (b, _) = u.to_base_unit_representation();
            obs_u64("factors", b.iter().count() as u64);
        }
    }
    cover("c08-exponent-finished");
}

/// The checker's checked exponent arithmetic must never panic; the unchecked variants are what the
/// checker uses for open types.
#[unsafe(no_mangle)]
pub extern "C" fn h_c08_dtype() {
    checkpoint();
    let op = cfg(0).expect("cfg 0");
    let n = i128_input(0, 1);
    let m = i128_input(2, 3);
    let length = DType::base_dimension("Length");
    let time = DType::base_dimension("Time");
    cover("c08-dtype-start");
    let a = match length.try_power(Rational::from_integer(n)) {
        Some(a) => a,
        None => return,
    };
    let b = match time.try_power(Rational::from_integer(m)) {
        Some(b) => b,
        None => return,
    };
    match op.trim() {
        "try-multiply" => {
            let _ = a.try_multiply(&b);
            let _ = a.try_multiply(&a);
        }
        "try-divide" => {
            let _ = a.try_divide(&b);
            let _ = a.try_divide(&a);
        }
        "try-power" => {
            let _ = a.try_power(Rational::from_integer(m));
        }
        _ => {
            // unchecked: x^n * x^n as the checker computes it for `fn f(x) = x^n * x^n`
            let _ = a.multiply(&a);
        }
    }
    cover("c08-dtype-finished");
}

fn interpret_text(text: &str) -> bool {
    use numbat::module_importer::BuiltinModuleImporter;
    use numbat::resolver::CodeSource;
    use numbat::Context;
    let mut ctx = Context::new(BuiltinModuleImporter::default());
    let _ = ctx.interpret(
        "dimension Scalar = 1\ndimension Length\n@metric_prefixes\nunit metre: Length\ndimension Time\nunit second: Time",
        CodeSource::Internal,
    );
    ctx.interpret(text, CodeSource::Text).is_ok()
}

/// the exponents of a kernel finding, submitted as source text (native only). An abort of the
/// process is the confirmation; any `Ok` / reported error is fine.
#[unsafe(no_mangle)]
pub extern "C" fn h_c08_exponent_text() {
    checkpoint();
    let op = cfg(0).expect("cfg 0");
    let n = i128_input(0, 1) as f64;
    let m = i128_input(2, 3) as f64;
    let text = match op.trim() {
        "power-of-power" => format!("((metre/centimetre)^({:e}))^({:e})", n, m),
        "mul-merge" => format!("(metre/centimetre)^({:e}) * (metre/centimetre)^({:e})", n, m),
        _ => format!("((metre/centimetre)^({:e}) / (second/millisecond)^({:e})) -> 1", n, m),
    };
    let ok = interpret_text(&text);
    obs_u64("accepted", ok as u64);
}

#[unsafe(no_mangle)]
pub extern "C" fn h_c08_dtype_text() {
    checkpoint();
    let op = cfg(0).expect("cfg 0");
    let n = i128_input(0, 1) as f64;
    let m = i128_input(2, 3) as f64;
    let text = match op.trim() {
        "try-multiply" => format!("fn f(x: Length, y: Time) = x^({:e}) * y^({:e}) * x^({:e})", n, m, n),
        "try-divide" => format!("fn f(x: Length, y: Time) = x^({:e}) / y^({:e}) / x^({:e})", n, m, n),
        "try-power" => format!("fn f(x: Length) = (x^({:e}))^({:e})", n, m),
        _ => format!("fn f(x) = x^({:e}) * x^({:e})", n, n),
    };
    let ok = interpret_text(&text);
    obs_u64("accepted", ok as u64);
}
