//! C01 — accepted programs never go wrong dimensionally at run time.
//!
//! Whole programs through the real pipeline. cfg 0 = prelude (units generated from the catalog), cfg 1 = program
//! (scalar literals are `__verif_sym(k)` holes; the dimension-polymorphic literals 0, inf, NaN are written literally),
//! cfg 2 = expected dimension of the result "base:num/den,…" ("bool" for booleans), cfg 3 = documented value-dependent
//! errors the template may raise ("div0", "none").
//! f64 0..2 = magnitudes (all doubles).

use numbat::value::Value;
use numbat::verif_hooks::quantity::QuantityError;
use numbat::verif_hooks::unit::Unit;
use numbat::RuntimeErrorKind;

use crate::session::{Outcome, Session};
use crate::sym::*;

fn dimension_string(u: &Unit) -> String {
    let (base, _) = u.to_base_unit_representation();
    let mut parts: Vec<String> = base
        .iter()
        .map(|f| format!("{}:{}/{}", f.unit_id.name, f.exponent.numer(), f.exponent.denom()))
        .collect();
    parts.sort();
    parts.join(",")
}

#[unsafe(no_mangle)]
pub extern "C" fn h_c01_sound() {
    let mut s = Session::new(&cfg(0).expect("cfg 0"));
    checkpoint();
    let prog = cfg(1).expect("cfg 1");
    let want_dim = cfg(2).expect("cfg 2");
    let allowed = cfg(3).unwrap_or_default();
    let _inputs = [f64_(0), f64_(1), f64_(2)];
    let out = s.run(&prog);
    cover("c01-program-ran");
    match out {
        Outcome::TypeError | Outcome::NameError | Outcome::ResolverError => {
            check(false, "template-is-accepted-by-the-checker");
        }
        Outcome::Runtime(kind) => {
            // an accepted program may only fail with a documented value-dependent error
            match kind {
                RuntimeErrorKind::QuantityError(QuantityError::IncompatibleUnits(_, _)) => {
                    check(false, "no-unit-incompatibility-at-run-time");
                }
                RuntimeErrorKind::DivisionByZero => check(allowed.contains("div0"), "only-documented-runtime-errors"),
                _ => check(false, "only-documented-runtime-errors"),
            }
        }
        Outcome::Value(Value::Quantity(q)) => {
            cover("c01-quantity-result");
            // the run-time unit carries the dimension the checker inferred (a zero is dimension-polymorphic)
            let got = dimension_string(q.unit());
            let zero = q.unsafe_value().to_f64() == 0.0;
            check(got == want_dim.trim() || (zero && q.unit().is_scalar()), "run-time-dimension-equals-static-type");
        }
        Outcome::Value(Value::Boolean(_)) => check(want_dim.trim() == "bool", "run-time-kind-equals-static-type"),
        Outcome::Value(_) | Outcome::Continue => check(false, "run-time-kind-equals-static-type"),
    }
}
