//! C11 (comparison symmetry) and C12 (commutativity of + / anti-commutativity of −).
//!
//! Case configuration: cfg 0 / cfg 1 = unit specifications of the two operands (real definition
//! trees from the catalog). Symbolic inputs: f64 0 = a, f64 1 = b (all doubles).

use numbat::value::Value;
use numbat::verif_hooks::quantity::Quantity;
use numbat::verif_hooks::span::{ByteIndex, Span};
use numbat::verif_hooks::unit::Unit;
use numbat::verif_hooks::vm::{Constant, Op, Vm};
use numbat::InterpreterResult;

use crate::sym::*;
use crate::units;

fn sp() -> Span {
    Span {
        start: ByteIndex(0),
        end: ByteIndex(0),
        code_source_id: 0,
    }
}

/// Pipeline self-test: one assertion that holds for all doubles, one that must be refuted with
/// a witness that replays natively (twin / vacuity witness for the whole tool chain).
#[unsafe(no_mangle)]
pub extern "C" fn h_selftest() {
    checkpoint();
    let a = f64_(0);
    let b = f64_(1);
    assume(!a.is_nan() && !b.is_nan());
    cover("selftest-reached");
    check((a + b).to_bits() == (b + a).to_bits() || (a + b).is_nan(), "selftest-add-commutes");
    obs_f64("selftest-sum", a + b);
    check(!(a * 2.0 == 3.0 && b == -0.5), "selftest-must-fail");
}

pub struct VmSession {
    vm: Vm,
}

/// Outcome of running one statement on the real VM.
pub enum Out {
    Bool(bool),
    Quantity(Quantity),
    Other,
    Err,
}

impl VmSession {
    pub fn new() -> Self {
        VmSession { vm: Vm::new() }
    }
    pub fn load_quantity(&mut self, a: f64, u: &Unit) {
        let ca = self.vm.add_constant(Constant::Scalar(a));
        let cu = self.vm.add_constant(Constant::Unit(u.clone()));
        self.vm.add_op1(Op::LoadConstant, ca, sp());
        self.vm.add_op1(Op::LoadConstant, cu, sp());
        self.vm.add_op(Op::Multiply, sp());
    }
    /// `a u1 <op> b u2` as the bytecode the compiler emits for it
    /// (LoadConstant, LoadConstant, Multiply for each operand; the operator; Return).
    pub fn binop(&mut self, op: Op, a: f64, u1: &Unit, b: f64, u2: &Unit) -> Out {
        self.load_quantity(a, u1);
        self.load_quantity(b, u2);
        self.vm.add_op(op, sp());
        self.vm.add_op(Op::Return, sp());
        let mut print = |_: &numbat::markup::Markup| {};
        match numbat::verif_hooks::run_vm(&mut self.vm, &mut print) {
            Ok(InterpreterResult::Value(Value::Boolean(b))) => Out::Bool(b),
            Ok(InterpreterResult::Value(Value::Quantity(q))) => Out::Quantity(q),
            Ok(_) => Out::Other,
            Err(_) => Out::Err,
        }
    }
    pub fn cmp(&mut self, op: Op, a: f64, u1: &Unit, b: f64, u2: &Unit) -> bool {
        match self.binop(op, a, u1, b, u2) {
            Out::Bool(b) => b,
            _ => {
                check(false, "comparison-returns-boolean");
                false
            }
        }
    }
}

fn two_units() -> (Unit, Unit) {
    let u1 = units::parse(&cfg(0).expect("cfg 0"));
    let u2 = units::parse(&cfg(1).expect("cfg 1"));
    (u1, u2)
}

/// C11 on the `PartialEq` implementation of quantities (what `==` on values bottoms out in).
#[unsafe(no_mangle)]
pub extern "C" fn h_c11_api() {
    checkpoint();
    let (u1, u2) = two_units();
    let a = f64_(0);
    let b = f64_(1);
    let qa = Quantity::new_f64(a, u1);
    let qb = Quantity::new_f64(b, u2);
    let e_ab = qa == qb;
    let e_ba = qb == qa;
    cover("c11-api-eq-evaluated");
    check(e_ab == e_ba, "eq-symmetric");
}

/// C11 through the real VM opcodes, one statement per comparison.
#[unsafe(no_mangle)]
pub extern "C" fn h_c11_vm() {
    checkpoint();
    let (u1, u2) = two_units();
    let a = f64_(0);
    let b = f64_(1);
    let mut s = VmSession::new();
    let lt_ab = s.cmp(Op::LessThan, a, &u1, b, &u2);
    let gt_ba = s.cmp(Op::GreaterThan, b, &u2, a, &u1);
    let gt_ab = s.cmp(Op::GreaterThan, a, &u1, b, &u2);
    let lt_ba = s.cmp(Op::LessThan, b, &u2, a, &u1);
    let le_ab = s.cmp(Op::LessOrEqual, a, &u1, b, &u2);
    let ge_ba = s.cmp(Op::GreatorOrEqual, b, &u2, a, &u1);
    let ge_ab = s.cmp(Op::GreatorOrEqual, a, &u1, b, &u2);
    let le_ba = s.cmp(Op::LessOrEqual, b, &u2, a, &u1);
    let eq_ab = s.cmp(Op::Equal, a, &u1, b, &u2);
    let eq_ba = s.cmp(Op::Equal, b, &u2, a, &u1);
    let ne_ab = s.cmp(Op::NotEqual, a, &u1, b, &u2);
    let ne_ba = s.cmp(Op::NotEqual, b, &u2, a, &u1);
    cover("c11-vm-all-evaluated");
    // (iii) != is the negation of == (either order)
    check(ne_ab == !eq_ab, "ne-is-negation-of-eq");
    check(ne_ba == !eq_ba, "ne-is-negation-of-eq");
    let nan = a.is_nan() || b.is_nan();
    if nan {
        cover("c11-vm-nan-operand");
        // (v) every ordering comparison involving NaN is false
        check(!lt_ab && !gt_ab && !le_ab && !ge_ab, "nan-ordering-false");
        check(!lt_ba && !gt_ba && !le_ba && !ge_ba, "nan-ordering-false");
    } else {
        cover("c11-vm-non-nan");
        // (iv) exactly one of <, ==, > — in either operand order
        let n_ab = lt_ab as u8 + eq_ab as u8 + gt_ab as u8;
        let n_ba = lt_ba as u8 + eq_ba as u8 + gt_ba as u8;
        check(n_ab == 1, "trichotomy");
        check(n_ba == 1, "trichotomy");
        // <= / >= agree with their strict parts
        check(le_ab == (lt_ab || eq_ab), "le-is-lt-or-eq");
        check(ge_ab == (gt_ab || eq_ab), "ge-is-gt-or-eq");
    }
    // (i), (ii) operand order
    check(eq_ab == eq_ba, "eq-symmetric");
    check(lt_ab == gt_ba, "lt-mirrors-gt");
    check(gt_ab == lt_ba, "lt-mirrors-gt");
    check(le_ab == ge_ba, "le-mirrors-ge");
    check(ge_ab == le_ba, "le-mirrors-ge");
}

fn bits(q: &Quantity) -> u64 {
    q.unsafe_value().to_f64().to_bits()
}

fn same_unit_structure(x: &Unit, y: &Unit) -> bool {
    x.iter().count() == y.iter().count() && x.iter().zip(y.iter()).all(|(f, g)| f == g)
}

/// C12 on `impl Add/Sub for &Quantity` and through the VM opcodes.
#[unsafe(no_mangle)]
pub extern "C" fn h_c12_api() {
    checkpoint();
    let (u1, u2) = two_units();
    let f1 = u1.to_base_unit_representation().1.to_f64();
    let f2 = u2.to_base_unit_representation().1.to_f64();
    // "differ in size" is decided from the definition trees alone (exact rational arithmetic in the
    // plan, cfg 2), not by the implementation's own factor arithmetic, when the plan could compute it
    let differ_in_size = match cfg(2) {
        Some(s) => s.trim() == "1",
        None => f1 != f2,
    };
    let a = f64_(0);
    let b = f64_(1);
    let mut s = VmSession::new();
    let (s1, s2) = match (
        s.binop(Op::Add, a, &u1, b, &u2),
        s.binop(Op::Add, b, &u2, a, &u1),
    ) {
        (Out::Quantity(x), Out::Quantity(y)) => (x, y),
        _ => {
            check(false, "add-returns-quantity");
            return;
        }
    };
    let (d1, d2) = match (
        s.binop(Op::Subtract, a, &u1, b, &u2),
        s.binop(Op::Subtract, b, &u2, a, &u1),
    ) {
        (Out::Quantity(x), Out::Quantity(y)) => (x, y),
        _ => {
            check(false, "sub-returns-quantity");
            return;
        }
    };
    cover("c12-all-evaluated");
    let both_zero = a == 0.0 && b == 0.0;
    let nan = s1.unsafe_value().to_f64().is_nan();
    if differ_in_size && !both_zero {
        cover("c12-side-condition-holds");
        // displayed with the same value in the same unit
        check(same_unit_structure(s1.unit(), s2.unit()), "add-same-unit");
        check(
            bits(&s1) == bits(&s2) || (nan && s2.unsafe_value().to_f64().is_nan()),
            "add-same-value",
        );
        check(same_unit_structure(d1.unit(), d2.unit()), "sub-same-unit");
        let v1 = d1.unsafe_value().to_f64();
        let v2 = d2.unsafe_value().to_f64();
        check(v1 == -v2 || (v1.is_nan() && v2.is_nan()), "sub-negated-value");
    } else {
        cover("c12-equal-size-or-both-zero");
        // same physical quantity: equal after expressing one in the other's unit; with equal
        // conversion factors (or zero values) that conversion is exact
        let s2c = s2.convert_to(s1.unit());
        match s2c {
            Ok(q) => {
                let x = s1.unsafe_value().to_f64();
                let y = q.unsafe_value().to_f64();
                check(x == y || (x.is_nan() && y.is_nan()), "add-same-quantity");
            }
            Err(_) => check(false, "add-same-dimension"),
        }
        let d2c = d2.convert_to(d1.unit());
        match d2c {
            Ok(q) => {
                let x = d1.unsafe_value().to_f64();
                let y = q.unsafe_value().to_f64();
                check(x == -y || (x.is_nan() && y.is_nan()), "sub-negated-quantity");
            }
            Err(_) => check(false, "sub-same-dimension"),
        }
    }
}
