//! C15 (expression kernel) — the echoed (pretty-printed) form of an accepted expression statement is accepted in
//! the same session, has the same type, evaluates to the same value, and echoing it again reproduces the text.
//!
//!   cfg 0 = pattern of token kinds as in h_c10_parse ("s" symbolic over the whole alphabet, "o" over the
//!           operators, "<n>" fixed); u64 i = kind of token i
//!
//! The real parser first runs on the symbolic token kinds (this is what prunes the sequences the grammar
//! rejects: a rejected prefix ends the path for all its completions at once). For an accepted sequence every kind
//! is then fixed by the path condition; the source text is assembled from the lexemes and goes through the whole
//! pipeline (`Context::interpret`) in a session in which `x` is the scalar 3; Number tokens are the literal 2.
//!   cfg 1 = optional session prelude, cfg 2 = optional lexeme for Identifier tokens (a unit, a function, a
//!           dimensionful variable of that prelude)

use numbat::pretty_print::PrettyPrint;
use numbat::resolver::CodeSource;
use numbat::value::Value;
use numbat::verif_hooks::parser::verif_parse_tokens;
use numbat::{InterpreterResult, Statement};

use crate::h_parse::{alphabet, init_tags, make_tokens, tag, ID, K, NUM, OPS};
use crate::session::Session;
use crate::sym::*;

fn value_key(v: &Value) -> String {
    match v {
        Value::Quantity(q) => format!("q:{:016x}:{}", q.unsafe_value().to_f64().to_bits(), q.unit()),
        other => format!("v:{:?}", other),
    }
}

fn result_key(r: &InterpreterResult) -> String {
    match r {
        InterpreterResult::Value(v) => value_key(v),
        InterpreterResult::Continue => "continue".into(),
    }
}

#[unsafe(no_mangle)]
pub extern "C" fn h_c15_expr() {
    init_tags();
    // cfg 1 (optional) = session prelude, cfg 2 (optional) = the lexeme of Identifier tokens (default: x = 3)
    let prelude = cfg(1).unwrap_or_else(|| String::from("dimension Scalar = 1\nlet x = 3\n"));
    let ident = cfg(2).map(|s| s.trim().to_string()).unwrap_or_else(|| String::from("x"));
    let mut session = Session::new(&prelude);
    checkpoint();
    let pattern = cfg(0).expect("cfg 0");
    let mut ks: Vec<u64> = Vec::new();
    for (i, item) in pattern.split_ascii_whitespace().enumerate() {
        if item == "s" || item == "o" {
            let k = u64_(i as u32);
            let mut ok = false;
            if item == "s" {
                for a in 0..K {
                    ok |= k == tag(a);
                }
            } else {
                for a in OPS {
                    ok |= k == tag(a);
                }
            }
            assume(ok);
            ks.push(k);
        } else {
            ks.push(tag(item.parse().expect("kind index")));
        }
    }
    if ks.is_empty() {
        return;
    }
    // 1. the real parser on the symbolic kinds, as the filter for "is in the grammar"
    let tokens = make_tokens(&ks);
    if verif_parse_tokens(&tokens).is_err() {
        cover("c15-expr-outside-grammar");
        return;
    }
    // 2. the kinds are now fixed by the path: assemble the source text
    let a = alphabet();
    let mut text = String::new();
    for &k in &ks {
        let mut idx = K;
        for i in 0..K {
            if k == tag(i) {
                idx = i;
                break;
            }
        }
        if !text.is_empty() {
            text.push(' ');
        }
        text.push_str(if idx == NUM {
            "2"
        } else if idx == ID {
            ident.as_str()
        } else {
            a[idx as usize].1
        });
    }
    obs_str("c15-input", &text);
    // 3. whole pipeline
    let (stmts, r1) = match session.ctx.interpret(&text, CodeSource::Text) {
        Ok(x) => x,
        Err(_) => {
            cover("c15-expr-not-accepted");
            return;
        }
    };
    cover("c15-expr-accepted");
    let Some(stmt) = stmts.last() else { return };
    let echoed = stmt.pretty_print().to_string();
    let ty1 = match stmt {
        Statement::Expression(e) => e.get_type_scheme().pretty_print().to_string(),
        _ => String::from("<statement>"),
    };
    let k1 = result_key(&r1);
    obs_str("c15-echo", &echoed);
    let (stmts2, r2) = match session.ctx.interpret(&echoed, CodeSource::Text) {
        Ok(x) => x,
        Err(_) => {
            check(false, "echoed-expression-is-accepted");
            return;
        }
    };
    cover("c15-expr-echo-accepted");
    let Some(stmt2) = stmts2.last() else {
        check(false, "echoed-expression-is-a-statement");
        return;
    };
    let ty2 = match stmt2 {
        Statement::Expression(e) => e.get_type_scheme().pretty_print().to_string(),
        _ => String::from("<statement>"),
    };
    // Type schemes with quantified dimension variables (expressions built from the polymorphic literals inf / NaN)
    // are printed with the variables the solver happened to keep: `forall A. A⁻²` and `forall A. A²`, or
    // `forall A. A` and `forall A B. A / B`, denote the same set of instances. Only concrete types are compared.
    let generic = ty1.starts_with("forall") || ty2.starts_with("forall");
    if ty1 != ty2 {
        obs_str("c15-type", &ty1);
        obs_str("c15-type-of-echo", &ty2);
    }
    check(generic || ty1 == ty2, "echoed-expression-has-the-same-type");
    check(ty1.starts_with("forall") == ty2.starts_with("forall"), "echoed-expression-is-generic-iff-the-input-is");
    check(k1 == result_key(&r2), "echoed-expression-evaluates-to-the-same-value");
    let echoed2 = stmt2.pretty_print().to_string();
    if echoed2 != echoed {
        obs_str("c15-echo-of-echo", &echoed2);
    }
    check(echoed2 == echoed, "echo-of-the-echo-is-the-same-text");
}

// ------------------------------------------------------------------------------------------------------------
// C16 — inferred function signatures are valid, principal annotations (function bodies with symbolic operators)
//
//   cfg 0 = token pattern of the BODY (as above); Identifier tokens are the parameters, alternately `a` and `b`
//   cfg 1 = session prelude (dimensions, units used by the call sites)
//   cfg 2 = call sites, separated by `;` (each an argument list such as `2 meter, 3 second`)
//
// `fn g(a, b) = <body>` is interpreted without annotations. If it is accepted, the statement the checker echoes
// (with the inferred signature spelled out) is interpreted as a re-declaration of g: it must be accepted, and every
// call site must behave identically (accepted or rejected; same type; same value) before and after.

fn eval_key(session: &mut Session, code: &str) -> String {
    match session.ctx.interpret(code, CodeSource::Text) {
        Ok((stmts, r)) => {
            let ty = match stmts.last() {
                Some(Statement::Expression(e)) => e.get_type_scheme().pretty_print().to_string(),
                _ => String::from("<statement>"),
            };
            // quantified result types (bodies built from the polymorphic literals) are printed with whatever variables
            // the solver kept — `forall A. A` and `forall A. A²` have the same instances — and compare as "generic"
            let ty = if ty.starts_with("forall") { String::from("<generic>") } else { ty };
            format!("ok:{}:{}", ty, result_key(&r))
        }
        Err(e) => match *e {
            numbat::NumbatError::ResolverError(_) => "err:resolver".into(),
            numbat::NumbatError::NameResolutionError(_) => "err:name".into(),
            numbat::NumbatError::TypeCheckError(_) => "err:type".into(),
            numbat::NumbatError::RuntimeError(re) => format!("err:runtime:{:?}", re.kind),
        },
    }
}

#[unsafe(no_mangle)]
pub extern "C" fn h_c16_infer() {
    init_tags();
    let prelude = cfg(1).expect("cfg 1");
    let calls: Vec<String> = cfg(2).expect("cfg 2").split(';').map(|s| s.trim().to_string()).filter(|s| !s.is_empty()).collect();
    let mut session = Session::new(&prelude);
    checkpoint();
    let pattern = cfg(0).expect("cfg 0");
    let mut ks: Vec<u64> = Vec::new();
    for (i, item) in pattern.split_ascii_whitespace().enumerate() {
        if item == "s" || item == "o" {
            let k = u64_(i as u32);
            let mut ok = false;
            if item == "s" {
                for a in 0..K {
                    ok |= k == tag(a);
                }
            } else {
                for a in OPS {
                    ok |= k == tag(a);
                }
            }
            assume(ok);
            ks.push(k);
        } else {
            ks.push(tag(item.parse().expect("kind index")));
        }
    }
    if ks.is_empty() {
        return;
    }
    let tokens = make_tokens(&ks);
    if verif_parse_tokens(&tokens).is_err() {
        cover("c16-body-outside-grammar");
        return;
    }
    let a = alphabet();
    let mut body = String::new();
    let mut nid = 0usize;
    for &k in &ks {
        let mut idx = K;
        for i in 0..K {
            if k == tag(i) {
                idx = i;
                break;
            }
        }
        if !body.is_empty() {
            body.push(' ');
        }
        if idx == NUM {
            body.push('2');
        } else if idx == ID {
            body.push_str(if nid % 2 == 0 { "a" } else { "b" });
            nid += 1;
        } else {
            body.push_str(a[idx as usize].1);
        }
    }
    let definition = format!("fn g(a, b) = {body}");
    obs_str("c16-definition", &definition);
    let echoed = match session.ctx.interpret(&definition, CodeSource::Text) {
        Ok((stmts, _)) => match stmts.last() {
            Some(s) => s.pretty_print().to_string(),
            None => return,
        },
        Err(_) => {
            cover("c16-definition-not-accepted");
            return;
        }
    };
    cover("c16-definition-accepted");
    obs_str("c16-inferred", &echoed);
    let before: Vec<String> = calls.iter().map(|c| eval_key(&mut session, &format!("g({c})"))).collect();
    // the inferred signature as an annotation
    let echoed2 = match session.ctx.interpret(&echoed, CodeSource::Text) {
        Ok((stmts, _)) => match stmts.last() {
            Some(s) => s.pretty_print().to_string(),
            None => String::new(),
        },
        Err(_) => {
            check(false, "inferred-signature-is-accepted-as-annotation");
            return;
        }
    };
    cover("c16-annotated-version-accepted");
    // (The annotated version is echoed with its annotations as written — `A^2` where the inferred signature was
    // printed as `A²`; C16 does not ask for identical text, so the two echoes are only recorded.)
    if echoed2 != echoed {
        obs_str("c16-annotated-echo", &echoed2);
    }
    let mut same = true;
    let mut any_ok = false;
    for (i, c) in calls.iter().enumerate() {
        let after = eval_key(&mut session, &format!("g({c})"));
        any_ok |= after.starts_with("ok:");
        if after != before[i] {
            same = false;
            obs_str("c16-call", c);
            obs_str("c16-before", &before[i]);
            obs_str("c16-after", &after);
        }
    }
    if any_ok {
        cover("c16-some-call-accepted");
    }
    check(same, "annotated-version-is-neither-more-nor-less-permissive");
}

// ------------------------------------------------------------------------------------------------------------
// C06 — a failing input leaves the session unchanged (the failing statement has symbolic token kinds)
//
//   cfg 0 = token pattern of the LAST statement of the input (an expression statement; kinds symbolic as above;
//           Identifier tokens are the name given in cfg 4, Number tokens the literal 2)
//   cfg 1 = session prelude
//   cfg 2 = the statements that precede the failing one IN THE SAME INPUT (definitions that succeed on their own)
//   cfg 3 = probes, separated by `;` — evaluated before and after the input
//   cfg 4 = the lexeme of Identifier tokens
//
// The input `<cfg 2>\n<expression>` is submitted to a real session. If it fails at any stage (parse, name resolution,
// type check, run time), every probe must give the same result or the same class of error as before the input, and
// the successful prefix alone must afterwards be accepted with the same results as in a session that never saw the
// failing input.

#[unsafe(no_mangle)]
pub extern "C" fn h_c06_rollback() {
    init_tags();
    let prelude = cfg(1).expect("cfg 1");
    let prefix = cfg(2).expect("cfg 2");
    let probes: Vec<String> = cfg(3).expect("cfg 3").split(';').map(|s| s.trim().to_string()).filter(|s| !s.is_empty()).collect();
    let ident = cfg(4).map(|s| s.trim().to_string()).unwrap_or_else(|| String::from("x"));
    let mut session = Session::new(&prelude);
    let mut twin = Session::new(&prelude);
    checkpoint();
    let pattern = cfg(0).expect("cfg 0");
    let mut ks: Vec<u64> = Vec::new();
    for (i, item) in pattern.split_ascii_whitespace().enumerate() {
        if item == "s" || item == "o" {
            let k = u64_(i as u32);
            let mut ok = false;
            if item == "s" {
                for a in 0..K {
                    ok |= k == tag(a);
                }
            } else {
                for a in OPS {
                    ok |= k == tag(a);
                }
            }
            assume(ok);
            ks.push(k);
        } else {
            ks.push(tag(item.parse().expect("kind index")));
        }
    }
    if ks.is_empty() {
        return;
    }
    // the real parser on the symbolic kinds: a rejected prefix of the sequence ends here for all its completions,
    // of which ONE (a witness from the solver) is carried on as the representative parse error
    let tokens = make_tokens(&ks);
    let grammatical = verif_parse_tokens(&tokens).is_ok();
    let a = alphabet();
    let mut text = String::new();
    for &k in &ks {
        let k = pick(k);
        let mut idx = K;
        for i in 0..K {
            if k == tag(i) {
                idx = i;
                break;
            }
        }
        if !text.is_empty() {
            text.push(' ');
        }
        text.push_str(if idx == NUM {
            "2"
        } else if idx == ID {
            ident.as_str()
        } else {
            a[idx as usize].1
        });
    }
    obs_str("c06-last-statement", &text);
    let input = format!("{prefix}\n{text}");
    let before: Vec<String> = probes.iter().map(|p| eval_key(&mut session, p)).collect();
    let outcome = eval_key(&mut session, &input);
    if outcome.starts_with("ok:") {
        cover("c06-input-succeeded");
        return;
    }
    cover("c06-input-failed");
    if !grammatical {
        cover("c06-parse-error");
    }
    if outcome.starts_with("err:name") {
        cover("c06-name-error");
    }
    if outcome.starts_with("err:type") {
        cover("c06-type-error");
    }
    if outcome.starts_with("err:runtime") {
        cover("c06-runtime-error");
    }
    obs_str("c06-failure", &outcome);
    let mut same = true;
    for (i, p) in probes.iter().enumerate() {
        let after = eval_key(&mut session, p);
        if after != before[i] {
            same = false;
            obs_str("c06-probe", p);
            obs_str("c06-before", &before[i]);
            obs_str("c06-after", &after);
        }
    }
    check(same, "probes-behave-as-before-the-failing-input");
    // later inputs: the successful prefix on its own, then the probes again — compared with a twin session that never
    // saw the failing input (it evaluates the probes once, as the first session did before the input)
    for p in &probes {
        let _ = eval_key(&mut twin, p);
    }
    for p in &probes {
        let _ = eval_key(&mut twin, p);
    }
    let r1 = eval_key(&mut session, &prefix);
    let r2 = eval_key(&mut twin, &prefix);
    check(r1 == r2, "later-input-gives-the-same-result-as-in-a-session-without-the-failure");
    let mut same2 = true;
    for p in &probes {
        let x = eval_key(&mut session, p);
        let y = eval_key(&mut twin, p);
        if x != y {
            same2 = false;
            obs_str("c06-probe", p);
            obs_str("c06-with-failure", &x);
            obs_str("c06-without-failure", &y);
        }
    }
    check(same2, "later-probes-give-the-same-results-as-in-a-session-without-the-failure");
}

// ------------------------------------------------------------------------------------------------------------
// C07 — incremental and batched submission agree; a copied session evolves independently
//
//   cfg 0..4 as for h_c06_rollback (cfg 2 = definitions, cfg 0 = token pattern of the following expression statement)
//
// Session A receives the definitions and the expression as two inputs, session B as one joined input. If both inputs of
// A succeed, B must succeed with the same type and value, and all probes must agree afterwards. A copy of A taken
// before the two inputs must still answer the probes as the untouched twin does.

#[unsafe(no_mangle)]
pub extern "C" fn h_c07_batch() {
    init_tags();
    let prelude = cfg(1).expect("cfg 1");
    let prefix = cfg(2).expect("cfg 2");
    let probes: Vec<String> = cfg(3).expect("cfg 3").split(';').map(|s| s.trim().to_string()).filter(|s| !s.is_empty()).collect();
    let ident = cfg(4).map(|s| s.trim().to_string()).unwrap_or_else(|| String::from("x"));
    let mut a_session = Session::new(&prelude);
    let mut b_session = Session::new(&prelude);
    let mut untouched = Session::new(&prelude);
    checkpoint();
    let pattern = cfg(0).expect("cfg 0");
    let mut ks: Vec<u64> = Vec::new();
    for (i, item) in pattern.split_ascii_whitespace().enumerate() {
        if item == "s" || item == "o" {
            let k = u64_(i as u32);
            let mut ok = false;
            if item == "s" {
                for a in 0..K {
                    ok |= k == tag(a);
                }
            } else {
                for a in OPS {
                    ok |= k == tag(a);
                }
            }
            assume(ok);
            ks.push(k);
        } else {
            ks.push(tag(item.parse().expect("kind index")));
        }
    }
    if ks.is_empty() {
        return;
    }
    let tokens = make_tokens(&ks);
    if verif_parse_tokens(&tokens).is_err() {
        cover("c07-outside-grammar");
        return;
    }
    let a = alphabet();
    let mut text = String::new();
    for &k in &ks {
        let mut idx = K;
        for i in 0..K {
            if k == tag(i) {
                idx = i;
                break;
            }
        }
        if !text.is_empty() {
            text.push(' ');
        }
        text.push_str(if idx == NUM {
            "2"
        } else if idx == ID {
            ident.as_str()
        } else {
            a[idx as usize].1
        });
    }
    obs_str("c07-expression", &text);
    // a copy of A before anything is submitted
    let mut copy = Session {
        ctx: a_session.ctx.clone(),
        printed: a_session.printed.clone(),
    };
    let r_defs = eval_key(&mut a_session, &prefix);
    if !r_defs.starts_with("ok:") {
        check(false, "definitions-of-the-case-are-accepted");
        return;
    }
    let r_a = eval_key(&mut a_session, &text);
    if !r_a.starts_with("ok:") {
        cover("c07-expression-fails");
        return;
    }
    cover("c07-incremental-succeeds");
    let r_b = eval_key(&mut b_session, &format!("{prefix}\n{text}"));
    if r_a != r_b {
        obs_str("c07-incremental", &r_a);
        obs_str("c07-batched", &r_b);
    }
    check(r_a == r_b, "batched-input-gives-the-same-result-as-incremental-inputs");
    let mut same = true;
    for p in &probes {
        let x = eval_key(&mut a_session, p);
        let y = eval_key(&mut b_session, p);
        if x != y {
            same = false;
            obs_str("c07-probe", p);
            obs_str("c07-incremental", &x);
            obs_str("c07-batched", &y);
        }
    }
    check(same, "probes-agree-after-incremental-and-batched-submission");
    // the copy never saw the definitions
    let mut indep = true;
    for p in &probes {
        let x = eval_key(&mut copy, p);
        let y = eval_key(&mut untouched, p);
        if x != y {
            indep = false;
            obs_str("c07-probe", p);
            obs_str("c07-copy", &x);
            obs_str("c07-untouched", &y);
        }
    }
    check(indep, "copied-session-is-independent-of-the-original");
}
