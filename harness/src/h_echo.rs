//! C15 (expression kernel) — the echoed (pretty-printed) form of an accepted expression statement is accepted in
//! the same session, has the same type, evaluates to the same value, and echoing it again reproduces the text.
//!
//!   cfg 0 = pattern of token kinds as in h_c10_parse ("s" symbolic over the whole alphabet, "o" over the
//!           operators, "<n>" fixed); u64 i = kind of token i
//!
//! The real parser first runs on the symbolic token kinds (this is what prunes the sequences the grammar
//! rejects: a rejected prefix ends the path for all its completions at once). For an accepted sequence every kind
//! is then fixed by the path condition; the source text is assembled from the lexemes and goes through the whole
//! pipeline (`Context::interpret`) in a session in which `x` is the scalar 3; Number tokens are the literal 2.

use numbat::pretty_print::PrettyPrint;
use numbat::resolver::CodeSource;
use numbat::value::Value;
use numbat::verif_hooks::parser::verif_parse_tokens;
use numbat::{InterpreterResult, Statement};

use crate::h_parse::{alphabet, init_tags, make_tokens, tag, K, NUM, OPS};
use crate::session::Session;
use crate::sym::*;

fn value_key(v: &Value) -> String {
    match v {
        Value::Quantity(q) => format!("q:{:016x}:{}", q.unsafe_value().to_f64().to_bits(), q.unit()),
        other => format!("v:{:?}", other),
    }
}

fn result_key(r: &InterpreterResult) -> String {
    match r {
        InterpreterResult::Value(v) => value_key(v),
        InterpreterResult::Continue => "continue".into(),
    }
}

#[unsafe(no_mangle)]
pub extern "C" fn h_c15_expr() {
    init_tags();
    let mut session = Session::new("dimension Scalar = 1\nlet x = 3\n");
    checkpoint();
    let pattern = cfg(0).expect("cfg 0");
    let mut ks: Vec<u64> = Vec::new();
    for (i, item) in pattern.split_ascii_whitespace().enumerate() {
        if item == "s" || item == "o" {
            let k = u64_(i as u32);
            let mut ok = false;
            if item == "s" {
                for a in 0..K {
                    ok |= k == tag(a);
                }
            } else {
                for a in OPS {
                    ok |= k == tag(a);
                }
            }
            assume(ok);
            ks.push(k);
        } else {
            ks.push(tag(item.parse().expect("kind index")));
        }
    }
    if ks.is_empty() {
        return;
    }
    // 1. the real parser on the symbolic kinds, as the filter for "is in the grammar"
    let tokens = make_tokens(&ks);
    if verif_parse_tokens(&tokens).is_err() {
        cover("c15-expr-outside-grammar");
        return;
    }
    // 2. the kinds are now fixed by the path: assemble the source text
    let a = alphabet();
    let mut text = String::new();
    for &k in &ks {
        let mut idx = K;
        for i in 0..K {
            if k == tag(i) {
                idx = i;
                break;
            }
        }
        if !text.is_empty() {
            text.push(' ');
        }
        text.push_str(if idx == NUM { "2" } else { a[idx as usize].1 });
    }
    obs_str("c15-input", &text);
    // 3. whole pipeline
    let (stmts, r1) = match session.ctx.interpret(&text, CodeSource::Text) {
        Ok(x) => x,
        Err(_) => {
            cover("c15-expr-not-accepted");
            return;
        }
    };
    cover("c15-expr-accepted");
    let Some(stmt) = stmts.last() else { return };
    let echoed = stmt.pretty_print().to_string();
    let ty1 = match stmt {
        Statement::Expression(e) => e.get_type_scheme().pretty_print().to_string(),
        _ => String::from("<statement>"),
    };
    let k1 = result_key(&r1);
    obs_str("c15-echo", &echoed);
    let (stmts2, r2) = match session.ctx.interpret(&echoed, CodeSource::Text) {
        Ok(x) => x,
        Err(_) => {
            check(false, "echoed-expression-is-accepted");
            return;
        }
    };
    cover("c15-expr-echo-accepted");
    let Some(stmt2) = stmts2.last() else {
        check(false, "echoed-expression-is-a-statement");
        return;
    };
    let ty2 = match stmt2 {
        Statement::Expression(e) => e.get_type_scheme().pretty_print().to_string(),
        _ => String::from("<statement>"),
    };
    check(ty1 == ty2, "echoed-expression-has-the-same-type");
    check(k1 == result_key(&r2), "echoed-expression-evaluates-to-the-same-value");
    check(stmt2.pretty_print().to_string() == echoed, "echo-of-the-echo-is-the-same-text");
}
