//! C03 — quantity arithmetic agrees with dimensional analysis of the unit definitions.
//!
//! Through the real VM opcodes. cfg 0 = operation (add, sub, mul, div, pow), cfg 1 / cfg 2 = unit specs of the
//! operands, cfg 3 = expected base-unit value for magnitudes 1, 1 (f64 bits hex; exact rational arithmetic on the
//! definition trees, done by the plan), cfg 4 = expected dimension "base:num/den,…", cfg 5 = integer exponent (pow).
//! f64 0, 1 = magnitudes a, b (all doubles).

use numbat::verif_hooks::quantity::Quantity;
use numbat::verif_hooks::vm::{Constant, Op};
use numbat::verif_hooks::unit::Unit;

use crate::h_cmp::{Out, VmSession};
use crate::sym::*;
use crate::units;

fn hexbits(s: &str) -> f64 {
    f64::from_bits(u64::from_str_radix(s.trim(), 16).expect("hex bits"))
}

fn ulps_apart(x: f64, y: f64) -> u64 {
    if x == y {
        return 0;
    }
    if x.is_nan() || y.is_nan() || (x < 0.0) != (y < 0.0) {
        return u64::MAX;
    }
    let (a, b) = (x.abs().to_bits(), y.abs().to_bits());
    if a > b { a - b } else { b - a }
}

fn dimension_string(u: &Unit) -> String {
    let (base, _) = u.to_base_unit_representation();
    let mut parts: Vec<String> = base
        .iter()
        .map(|f| format!("{}:{}/{}", f.unit_id.name, f.exponent.numer(), f.exponent.denom()))
        .collect();
    parts.sort();
    parts.join(",")
}

fn eval(s: &mut VmSession, op: &str, a: f64, u1: &Unit, b: f64, u2: &Unit, k: f64) -> Option<Quantity> {
    let out = match op {
        "add" => s.binop(Op::Add, a, u1, b, u2),
        "sub" => s.binop(Op::Subtract, a, u1, b, u2),
        "mul" => s.binop(Op::Multiply, a, u1, b, u2),
        "div" => s.binop(Op::Divide, a, u1, b, u2),
        _ => s.binop(Op::Power, a, u1, k, &Unit::scalar()),
    };
    match out {
        Out::Quantity(q) => Some(q),
        _ => None,
    }
}

#[unsafe(no_mangle)]
pub extern "C" fn h_c03_arith() {
    checkpoint();
    let op = cfg(0).expect("cfg 0");
    let op = op.trim();
    let u1 = units::parse(&cfg(1).expect("cfg 1"));
    let u2 = units::parse(&cfg(2).expect("cfg 2"));
    let k: f64 = cfg(5).map(|s| s.trim().parse().unwrap()).unwrap_or(1.0);
    // powers: `powf` on a symbolic base is not executable symbolically; the base magnitude is concrete (cfg 6)
    let a = if op == "pow" { cfg(6).map(|s| s.trim().parse().unwrap()).unwrap_or(1.0) } else { f64_(0) };
    let b = f64_(1);
    let _ = Constant::Scalar(0.0);
    let mut s = VmSession::new();
    let r = match eval(&mut s, op, a, &u1, b, &u2, k) {
        Some(q) => q,
        None => {
            // the only documented value-dependent failures: division by zero, 0^negative
            let allowed = (op == "div" && b == 0.0) || (op == "pow" && a == 0.0 && k < 0.0);
            check(allowed, "arithmetic-on-compatible-units-succeeds");
            return;
        }
    };
    cover("c03-evaluated");
    // ---- exact dimension of the result
    if let Some(want) = cfg(4) {
        let zero_shortcut = (op == "add" || op == "sub") && (a == 0.0 || b == 0.0);
        let _ = zero_shortcut;
        check(dimension_string(r.unit()) == want.trim(), "result-dimension-follows-dimensional-analysis");
    }
    // ---- value class, where exact arithmetic on the operand classes decides it
    let v = r.to_base_unit_representation().unsafe_value().to_f64();
    let finite_nz = |x: f64| x.is_finite() && x != 0.0;
    match op {
        "mul" => {
            if a.is_nan() || b.is_nan() {
                check(v.is_nan(), "nan-propagates");
            } else if finite_nz(a) && finite_nz(b) {
                check(!v.is_nan(), "finite-operands-do-not-give-nan");
                check(v == 0.0 || (v < 0.0) == ((a < 0.0) != (b < 0.0)), "sign-follows-operands");
            }
        }
        "div" => {
            if a.is_nan() || b.is_nan() {
                check(v.is_nan(), "nan-propagates");
            } else if finite_nz(a) && finite_nz(b) {
                check(!v.is_nan(), "finite-operands-do-not-give-nan");
                check(v == 0.0 || (v < 0.0) == ((a < 0.0) != (b < 0.0)), "sign-follows-operands");
            }
        }
        "add" | "sub" => {
            if a.is_nan() || b.is_nan() {
                check(v.is_nan(), "nan-propagates");
            } else if a.is_finite() && b.is_finite() {
                check(!v.is_nan(), "finite-operands-do-not-give-nan");
            }
            if a == 0.0 && b.is_finite() && b != 0.0 {
                // 0 + b is b and 0 - b is -b, in b's own unit (checked on the result's own magnitude: the
                // base-unit value of a subnormal b may underflow)
                let own = r.unsafe_value().to_f64();
                let want = if op == "add" { b } else { -b };
                check(own == want, "zero-operand-keeps-the-other-quantity");
            }
        }
        _ => {}
    }
    // ---- the value for magnitudes 1 (1 and 1) against exact arithmetic on the unit definitions
    if let Some(expected) = cfg(3).map(|s| hexbits(&s)) {
        let a1 = if op == "pow" { a } else { 1.0 };
        if let Some(one) = eval(&mut s, op, a1, &u1, 1.0, &u2, k) {
            let f = one.to_base_unit_representation().unsafe_value().to_f64();
            obs_f64("base-value-of-ones", f);
            check(ulps_apart(f, expected) <= 32, "value-agrees-with-unit-definitions");
        }
    }
}
