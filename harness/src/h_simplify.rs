//! C05 — automatic unit simplification never changes the quantity.
//!
//! Whole programs through the real pipeline, in a session whose prelude defines (from the catalog) the units
//! of the case plus the candidate units the registry-based simplification may pick.
//!   cfg 0 = prelude, cfg 1 = source text of the raw unit expression E, cfg 2 = spec of E's unit (factor list),
//!   cfg 3 = source text of an explicit conversion target T (optional), cfg 4 = spec of T,
//!   cfg 7 = "name=spec;…" units whose session definition must match the catalog
//!   f64 0 = magnitude a (all doubles)

use numbat::value::Value;
use numbat::verif_hooks::quantity::Quantity;
use numbat::verif_hooks::unit::Unit;

use crate::session::{Outcome, Session};
use crate::sym::*;
use crate::units;

fn same_unit_structure(x: &Unit, y: &Unit) -> bool {
    x.iter().count() == y.iter().count() && x.iter().zip(y.iter()).all(|(f, g)| f == g)
}

fn ulps_apart(x: f64, y: f64) -> u64 {
    if x == y {
        return 0;
    }
    if x.is_nan() || y.is_nan() || (x < 0.0) != (y < 0.0) {
        return u64::MAX;
    }
    let (a, b) = (x.abs().to_bits(), y.abs().to_bits());
    if a > b { a - b } else { b - a }
}

fn quantity(o: Outcome) -> Option<Quantity> {
    match o {
        Outcome::Value(Value::Quantity(q)) => Some(q),
        _ => None,
    }
}

#[unsafe(no_mangle)]
pub extern "C" fn h_c05_simplify() {
    let mut s = Session::new(&cfg(0).expect("cfg 0"));
    if let Some(list) = cfg(7) {
        for item in list.split(';') {
            if let Some((name, spec)) = item.split_once('=') {
                check(s.unit_matches(name.trim(), spec), "session-unit-matches-catalog");
            }
        }
    }
    checkpoint();
    let e_text = cfg(1).expect("cfg 1");
    let raw_unit = units::parse(&cfg(2).expect("cfg 2"));
    let a = f64_(0);

    // ---- displayed (simplified) result of  a * (E)
    let shown = match quantity(s.run(&format!("__verif_sym(0) * ({})", e_text))) {
        Some(q) => q,
        None => {
            check(false, "expression-evaluates-to-a-quantity");
            return;
        }
    };
    cover("c05-simplified");
    let raw = Quantity::new_f64(a, raw_unit.clone());
    // dimension preserved: same base-unit representation
    let (b1, _) = shown.unit().to_base_unit_representation();
    let (b2, _) = raw_unit.to_base_unit_representation();
    // (a zero is dimension-polymorphic in numbat — "zero is compatible with any type" is pinned by the
    // existing test suite, which expects `let x: Length = parse("0 kg"); x` to display `0` — so a zero may be
    // shown as the plain polymorphic `0`)
    check(b1 == b2 || (a == 0.0 && shown.unit().is_scalar()), "simplification-preserves-dimension");
    // value class preserved (conversion factors are positive and finite)
    let v = shown.unsafe_value().to_f64();
    if a.is_nan() {
        check(v.is_nan(), "nan-stays-nan");
    } else if a == 0.0 {
        check(v == 0.0, "zero-stays-zero");
    } else {
        check(!v.is_nan(), "non-nan-stays-non-nan");
        check(v == 0.0 || (v < 0.0) == (a < 0.0), "sign-preserved");
    }
    // converting the displayed value back to the unit of the unsimplified computation
    match shown.convert_to(&raw_unit) {
        Ok(back) => check(same_unit_structure(back.unit(), &raw_unit), "back-conversion-yields-raw-unit"),
        Err(_) => check(false, "simplified-result-converts-back-to-raw-unit"),
    }
    let _ = raw;

    // ---- magnitude: the simplified form of 1·E (and of 2^k·E) converted back is 1 (2^k)
    if let Some(one) = quantity(s.run(&format!("1 * ({})", e_text))) {
        match one.convert_to(&raw_unit) {
            Ok(back) => {
                let b = back.unsafe_value().to_f64();
                obs_f64("back-of-one", b);
                check(ulps_apart(b, 1.0) <= 64, "simplification-preserves-magnitude");
            }
            Err(_) => check(false, "simplified-result-converts-back-to-raw-unit"),
        }
    }

    // ---- a value whose unit was chosen with an explicit conversion is left alone
    if let (Some(t_text), Some(t_spec)) = (cfg(3), cfg(4)) {
        let target = units::parse(&t_spec);
        match quantity(s.run(&format!("__verif_sym(0) * ({}) -> ({})", e_text, t_text))) {
            Some(q) => {
                cover("c05-explicit-conversion");
                check(same_unit_structure(q.unit(), &target), "explicitly-converted-value-keeps-its-unit");
                check(!q.can_simplify(), "explicitly-converted-value-keeps-its-unit");
            }
            None => check(false, "explicit-conversion-evaluates"),
        }
        // … also when it is bound to a variable and shown later
        let _ = s.run(&format!("let kept = __verif_sym(0) * ({}) -> ({})", e_text, t_text));
        if let Some(q) = quantity(s.run("kept")) {
            check(same_unit_structure(q.unit(), &target), "explicitly-converted-value-keeps-its-unit");
        }
    }
}
