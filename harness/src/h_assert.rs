//! C21 — assertions decide exactly their documented predicate.
//!
//! Whole programs through the real pipeline. cfg 0 = session prelude (unit definitions generated from
//! the catalog), cfg 1/2/3 = unit expressions (source text) of a, b, eps; cfg 4/5/6 = their unit specs;
//! cfg 7 = "name=spec;name=spec" units whose session definition must match the catalog.
//! f64 0,1,2 = magnitudes of a, b, eps (all doubles).

use numbat::value::Value;
use numbat::verif_hooks::quantity::Quantity;
use numbat::RuntimeErrorKind;

use crate::session::{Outcome, Session};
use crate::sym::*;
use crate::units;

fn setup() -> (Session, [String; 3], [numbat::verif_hooks::unit::Unit; 3]) {
    let prelude = cfg(0).expect("cfg 0");
    let s = Session::new(&prelude);
    if let Some(list) = cfg(7) {
        for item in list.split(';') {
            if let Some((name, spec)) = item.split_once('=') {
                check(s.unit_matches(name.trim(), spec), "session-unit-matches-catalog");
            }
        }
    }
    let texts = [cfg(1).unwrap(), cfg(2).unwrap(), cfg(3).unwrap()];
    let us = [
        units::parse(&cfg(4).unwrap()),
        units::parse(&cfg(5).unwrap()),
        units::parse(&cfg(6).unwrap()),
    ];
    (s, texts, us)
}

fn marker_ran(s: &mut Session) -> bool {
    // `marker` is defined by the statement after the assertion; if the input was aborted it must not exist
    matches!(s.run("marker"), Outcome::Value(_))
}

#[unsafe(no_mangle)]
pub extern "C" fn h_c21_assert() {
    let mut s = Session::new(&cfg(0).expect("cfg 0"));
    checkpoint();
    let a = f64_(0);
    let b = f64_(1);
    // assert(c) succeeds iff c
    let c = a < b; // reference: plain comparison of two scalars
    let before = s.printed_count();
    let out = s.run("assert(__verif_sym(0) < __verif_sym(1))\nprint(\"after\")\nlet marker = 1");
    cover("c21-assert-evaluated");
    match out {
        Outcome::Continue | Outcome::Value(_) => {
            check(c, "assert-succeeds-only-if-condition-true");
            check(s.printed_count() == before + 1, "statements-after-passing-assert-run");
            check(marker_ran(&mut s), "statements-after-passing-assert-run");
        }
        Outcome::Runtime(RuntimeErrorKind::AssertFailed(_)) => {
            check(!c, "assert-fails-only-if-condition-false");
            check(s.printed_count() == before, "no-statement-runs-after-failed-assertion");
            check(!marker_ran(&mut s), "no-statement-runs-after-failed-assertion");
        }
        _ => check(false, "assert-outcome-is-success-or-AssertFailed"),
    }
}

#[unsafe(no_mangle)]
pub extern "C" fn h_c21_eq2() {
    let (mut s, t, u) = setup();
    checkpoint();
    let a = f64_(0);
    let b = f64_(1);
    // documented predicate: a equals b after converting a to b's unit
    let qa = Quantity::new_f64(a, u[0].clone());
    let qb = Quantity::new_f64(b, u[1].clone());
    let expected = match qa.convert_to(qb.unit()) {
        Ok(conv) => conv.unsafe_value().to_f64() == b,
        Err(_) => false,
    };
    let prog = format!(
        "assert_eq(__verif_sym(0) * ({}), __verif_sym(1) * ({}))\nprint(\"after\")\nlet marker = 1",
        t[0], t[1]
    );
    let before = s.printed_count();
    let out = s.run(&prog);
    cover("c21-eq2-evaluated");
    match out {
        Outcome::Continue | Outcome::Value(_) => {
            check(expected, "assert_eq2-succeeds-only-if-equal-in-rhs-unit");
            check(s.printed_count() == before + 1, "statements-after-passing-assert-run");
        }
        Outcome::Runtime(RuntimeErrorKind::AssertEq2Failed(_)) => {
            check(!expected, "assert_eq2-fails-only-if-different-in-rhs-unit");
            check(s.printed_count() == before, "no-statement-runs-after-failed-assertion");
            check(!marker_ran(&mut s), "no-statement-runs-after-failed-assertion");
        }
        _ => check(false, "assert_eq2-outcome-is-success-or-AssertEq2Failed"),
    }
}

#[unsafe(no_mangle)]
pub extern "C" fn h_c21_eq3() {
    let (mut s, t, u) = setup();
    checkpoint();
    let a = f64_(0);
    let b = f64_(1);
    let e = f64_(2);
    // documented predicate: |a - b| <= eps with a, b both expressed in eps's unit; NaN anywhere fails
    let qa = Quantity::new_f64(a, u[0].clone());
    let qb = Quantity::new_f64(b, u[1].clone());
    let expected = match (qa.convert_to(&u[2]), qb.convert_to(&u[2])) {
        (Ok(ca), Ok(cb)) => {
            let d = (ca.unsafe_value().to_f64() - cb.unsafe_value().to_f64()).abs();
            d <= e
        }
        _ => false,
    };
    let prog = format!(
        "assert_eq(__verif_sym(0) * ({}), __verif_sym(1) * ({}), __verif_sym(2) * ({}))\nprint(\"after\")\nlet marker = 1",
        t[0], t[1], t[2]
    );
    let before = s.printed_count();
    let out = s.run(&prog);
    cover("c21-eq3-evaluated");
    match out {
        Outcome::Continue | Outcome::Value(_) => {
            check(expected, "assert_eq3-succeeds-only-if-within-eps");
            check(s.printed_count() == before + 1, "statements-after-passing-assert-run");
        }
        Outcome::Runtime(RuntimeErrorKind::AssertEq3Failed(_)) => {
            check(!expected, "assert_eq3-fails-only-if-outside-eps");
            check(s.printed_count() == before, "no-statement-runs-after-failed-assertion");
            check(!marker_ran(&mut s), "no-statement-runs-after-failed-assertion");
        }
        _ => check(false, "assert_eq3-outcome-is-success-or-AssertEq3Failed"),
    }
    let _ = Value::Boolean(true);
}
