//! C19 (kernel) — date-time plus/minus a duration, through the real VM opcodes AddToDateTime / SubFromDateTime.
//!
//!   cfg 0 = the instant t as Unix seconds (concrete), cfg 1 = "add" | "sub"
//!   f64 0 = duration d in seconds (all doubles)

use numbat::value::Value;
use numbat::verif_hooks::prefix_parser::AcceptsPrefix;
use numbat::verif_hooks::span::{ByteIndex, Span};
use numbat::verif_hooks::unit::{CanonicalName, Unit};
use numbat::verif_hooks::vm::{Constant, Op, Vm};
use numbat::{InterpreterResult, RuntimeErrorKind};

use crate::sym::*;

fn sp() -> Span {
    Span {
        start: ByteIndex(0),
        end: ByteIndex(0),
        code_source_id: 0,
    }
}

#[unsafe(no_mangle)]
pub extern "C" fn h_c19_add() {
    checkpoint();
    let t_s: i64 = cfg(0).expect("cfg 0").trim().parse().unwrap();
    let sub = cfg(1).map(|s| s.trim() == "sub").unwrap_or(false);
    let d = f64_(0);
    let t = jiff::Timestamp::from_second(t_s).expect("timestamp").to_zoned(jiff::tz::TimeZone::UTC);
    let t_ns = t.timestamp().as_nanosecond();
    let second = Unit::new_base("second".into(), CanonicalName::new("s", AcceptsPrefix::only_short()));

    let mut vm = Vm::new();
    vm.verif_push(Value::DateTime(t));
    let cd = vm.add_constant(Constant::Scalar(d));
    let cu = vm.add_constant(Constant::Unit(second));
    vm.add_op1(Op::LoadConstant, cd, sp());
    vm.add_op1(Op::LoadConstant, cu, sp());
    vm.add_op(Op::Multiply, sp());
    vm.add_op(if sub { Op::SubFromDateTime } else { Op::AddToDateTime }, sp());
    vm.add_op(Op::Return, sp());
    let mut print = |_: &numbat::markup::Markup| {};
    let r = numbat::verif_hooks::run_vm(&mut vm, &mut print);
    cover("c19-evaluated");
    match r {
        Ok(InterpreterResult::Value(Value::DateTime(z))) => {
            cover("c19-instant-produced");
            let z_ns = z.timestamp().as_nanosecond();
            let delta = if sub { t_ns - z_ns } else { z_ns - t_ns };
            // the shift is d, up to nanosecond rounding of d: compared as integers of nanoseconds for |d| < 2^20 s,
            // where d·1e9 < 2^53 is computed exactly enough in double precision (error < 0.25 ns)
            if d.abs() < 1048576.0 {
                let want = d * 1e9;
                let got = delta as f64;
                check((got - want).abs() <= 1.5, "instant-is-shifted-by-the-duration");
            }
            check((delta >= 0) == (d >= 0.0) || delta == 0, "shift-has-the-sign-of-the-duration");
        }
        Ok(_) => check(false, "result-is-a-date-time"),
        Err(e) => {
            match e.kind {
                RuntimeErrorKind::DurationOutOfRange | RuntimeErrorKind::DateTimeOutOfRange => {
                    cover("c19-out-of-range-error");
                    // a duration of less than 30 years around the year 2000 is in range
                    check(!(d.abs() < 9.0e8), "in-range-operation-does-not-fail");
                }
                _ => check(false, "only-documented-range-errors"),
            }
        }
    }
}

/// the same operation as source text through the public API (native only): confirms kernel findings
#[unsafe(no_mangle)]
pub extern "C" fn h_c19_add_text() {
    use numbat::module_importer::BuiltinModuleImporter;
    use numbat::resolver::CodeSource;
    use numbat::Context;
    checkpoint();
    let t_s: i64 = cfg(0).expect("cfg 0").trim().parse().unwrap();
    let sub = cfg(1).map(|s| s.trim() == "sub").unwrap_or(false);
    let d = f64_(0);
    let mut ctx = Context::new(BuiltinModuleImporter::default());
    let _ = ctx.interpret("use prelude", CodeSource::Internal);
    let lit = if d.is_nan() {
        "NaN".to_string()
    } else if d.is_infinite() {
        if d > 0.0 { "inf".to_string() } else { "-inf".to_string() }
    } else {
        format!("({:e})", d)
    };
    let _ = t_s; // the kernel cases use 2000-01-01T00:00:00Z (946684800)
    let text = format!("datetime(\"2000-01-01T00:00:00Z\") {} {} s", if sub { "-" } else { "+" }, lit);
    let ok = ctx.interpret(&text, CodeSource::Text).is_ok();
    obs_u64("accepted", ok as u64);
}
