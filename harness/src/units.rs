//! Textual unit specifications.
//!
//! The native catalog step serialises the *real* `Unit` values of a session that loaded the
//! current tree's prelude (definition tree included); harnesses rebuild them with the real
//! constructors (`Unit::new_base`, `Unit::new_derived`, `with_prefix`, `power`), so that the
//! structure under symbolic execution is the one the VM would hold. `catalog` checks
//! `parse(serialise(u)) == u` factor by factor for every unit it emits.
//!
//! Grammar (space-separated tokens):
//!   unit   := "(" factor* ")"
//!   factor := "[" name canonical short long pkind pexp enum eden kind "]"
//!   kind   := "B" | "D" f64bits-hex unit
//!   pkind  := "M" | "I"        (metric 10^pexp | binary 2^pexp)
#![allow(dead_code)]

use numbat::verif_hooks::arithmetic::{Power, Rational};
use numbat::verif_hooks::number::Number;
use numbat::verif_hooks::prefix::Prefix;
use numbat::verif_hooks::prefix_parser::AcceptsPrefix;
use numbat::verif_hooks::unit::{CanonicalName, Unit, UnitFactor};

pub fn serialise(u: &Unit) -> String {
    let mut out = String::new();
    ser_unit(u, &mut out);
    out
}

fn ser_unit(u: &Unit, out: &mut String) {
    out.push('(');
    for f in u.iter() {
        out.push(' ');
        ser_factor(f, out);
    }
    out.push_str(" )");
}

fn ser_factor(f: &UnitFactor, out: &mut String) {
    let id = &f.unit_id;
    let (pk, pe) = match f.prefix {
        Prefix::Metric(e) => ('M', e),
        Prefix::Binary(e) => ('I', e),
    };
    out.push_str(&format!(
        "[ {} {} {} {} {} {} {} {} ",
        id.name,
        id.canonical_name.name,
        id.canonical_name.accepts_prefix.short as u8,
        id.canonical_name.accepts_prefix.long as u8,
        pk,
        pe,
        f.exponent.numer(),
        f.exponent.denom()
    ));
    if id.is_base() {
        out.push('B');
    } else {
        let bf = id.unit_and_factor();
        out.push_str(&format!("D {:016x} ", bf.1.to_f64().to_bits()));
        ser_unit(&bf.0, out);
    }
    out.push_str(" ]");
}

pub struct Parser<'a> {
    toks: std::str::SplitAsciiWhitespace<'a>,
}

impl<'a> Parser<'a> {
    pub fn new(s: &'a str) -> Self {
        Parser {
            toks: s.split_ascii_whitespace(),
        }
    }
    fn next(&mut self) -> &'a str {
        self.toks.next().expect("unit spec: unexpected end")
    }
    pub fn unit(&mut self) -> Unit {
        let t = self.next();
        assert!(t == "(", "unit spec: expected (");
        let mut factors: Vec<UnitFactor> = Vec::new();
        loop {
            let t = self.next();
            if t == ")" {
                break;
            }
            assert!(t == "[", "unit spec: expected [");
            factors.push(self.factor());
        }
        Unit::from_factors(factors)
    }
    fn factor(&mut self) -> UnitFactor {
        let name = self.next();
        let canonical = self.next();
        let short = self.next() == "1";
        let long = self.next() == "1";
        let pk = self.next();
        let pe: i32 = self.next().parse().expect("prefix exponent");
        let en: i128 = self.next().parse().expect("exponent numerator");
        let ed: i128 = self.next().parse().expect("exponent denominator");
        let kind = self.next();
        let cn = CanonicalName::new(canonical, AcceptsPrefix { short, long });
        let unit = if kind == "B" {
            Unit::new_base(name.into(), cn)
        } else {
            let bits = u64::from_str_radix(self.next(), 16).expect("factor bits");
            let def = self.unit();
            Unit::new_derived(name.into(), cn, Number::from_f64(f64::from_bits(bits)), def)
        };
        let close = self.next();
        assert!(close == "]", "unit spec: expected ]");
        let prefix = if pk == "M" {
            Prefix::Metric(pe)
        } else {
            Prefix::Binary(pe)
        };
        let unit = if prefix.is_none() {
            unit
        } else {
            unit.with_prefix(prefix)
        };
        let unit = if en == 1 && ed == 1 {
            unit
        } else {
            unit.power(Rational::new(en, ed))
        };
        unit.into_iter().next().expect("one factor")
    }
}

pub fn parse(s: &str) -> Unit {
    Parser::new(s).unit()
}
