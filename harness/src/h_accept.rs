//! C02 / C01 (structural kernel) — the checker accepts exactly the dimensionally consistent expressions, reports the
//! dimension ordinary dimensional analysis gives, and what it accepts does not go wrong dimensionally at run time.
//!
//!   cfg 0 = pattern of token kinds as in h_c10_parse ("s" symbolic over the whole alphabet, "o" over the operators,
//!           "<n>" fixed); u64 i = kind of token i
//!   cfg 1 = session prelude (dimensions Length and Time, their units, the names below)
//!   cfg 2 = names, separated by blanks: an Identifier token at position i is spelled names[i mod len]
//!   cfg 3 = the reference's knowledge of every name, `name=L^p*T^q` (a quantity of that dimension) or
//!           `name=fn:L^p*T^q:L^r*T^s` (a function of one quantity), separated by blanks — transcribed from the
//!           prelude by the plan (the declared dimensions), not read back from the checker
//!   cfg 4 = "c02" (static assertions) or "c01" (run-time assertions)
//!
//! The real parser first runs on the symbolic token kinds and prunes what the grammar rejects. For an accepted
//! sequence the real syntax tree (whose shape C10 decides against the documented precedence table) is typed by a
//! REFERENCE: ordinary dimensional analysis with exponent vectors over (Length, Time) and rational exponents —
//! sums, differences, comparisons, conversions, conditional branches and list elements need equal dimensions;
//! products add, quotients subtract, constant powers multiply exponents; factorials and exponents need scalars.
//! The text then goes through the whole real pipeline (`Context::interpret`).

use numbat::value::Value;
use numbat::verif_hooks::ast::{BinaryOperator, Expression, UnaryOperator};
use numbat::verif_hooks::parser::verif_parse_tokens;
use numbat::verif_hooks::quantity::QuantityError;
use numbat::verif_hooks::type_scheme::TypeScheme;
use numbat::verif_hooks::typed_ast::DTypeFactor;
use numbat::{RuntimeErrorKind, Statement, Type};

use crate::h_parse::{alphabet, init_tags, make_tokens_named, tag, ID, K, NUM, OPS};
use crate::session::{Outcome, Session};
use crate::sym::*;

/// exact rational, small
#[derive(Clone, Copy, PartialEq, Eq, Debug)]
struct Q(i64, i64);

fn gcd(a: i64, b: i64) -> i64 {
    if b == 0 {
        a.abs()
    } else {
        gcd(b, a % b)
    }
}
impl Q {
    fn new(n: i64, d: i64) -> Q {
        let g = gcd(n, d).max(1);
        let s = if d < 0 { -1 } else { 1 };
        Q(s * n / g, s * d / g)
    }
    fn int(n: i64) -> Q {
        Q(n, 1)
    }
    fn add(self, o: Q) -> Q {
        Q::new(self.0 * o.1 + o.0 * self.1, self.1 * o.1)
    }
    fn neg(self) -> Q {
        Q(-self.0, self.1)
    }
    fn mul(self, o: Q) -> Q {
        Q::new(self.0 * o.0, self.1 * o.1)
    }
    fn is_zero(self) -> bool {
        self.0 == 0
    }
    fn small(self) -> bool {
        self.0.abs() < 1_000 && self.1.abs() < 1_000
    }
}

/// exponents of (Length, Time)
type Dim = [Q; 2];
const SCALAR: Dim = [Q(0, 1), Q(0, 1)];

#[derive(Clone, PartialEq, Debug)]
enum RT {
    Dim(Dim),
    Bool,
    Str,
    List(Box<RT>),
    Fn(Dim, Dim),
}

enum No {
    /// two quantities of different dimension would have to be equal (or a non-scalar where a scalar is needed)
    Inconsistent,
    /// a quantity where a boolean is needed, and the like
    IllKinded,
    /// outside what the reference models (polymorphic literals, typed holes, calls of non-functions, …)
    Skip,
}

type Names = Vec<(String, RT)>;

fn parse_dim(s: &str) -> Dim {
    // L^p*T^q with integer p, q
    let mut d = SCALAR;
    for f in s.split('*') {
        let (b, e) = f.split_once('^').unwrap_or((f, "1"));
        let e: i64 = e.parse().expect("exponent");
        match b {
            "L" => d[0] = d[0].add(Q::int(e)),
            "T" => d[1] = d[1].add(Q::int(e)),
            "1" => {}
            _ => panic!("base"),
        }
    }
    d
}

fn parse_names(s: &str) -> Names {
    s.split_ascii_whitespace()
        .map(|item| {
            let (n, t) = item.split_once('=').expect("name=type");
            let rt = if let Some(rest) = t.strip_prefix("fn:") {
                let (a, r) = rest.split_once(':').expect("fn:arg:ret");
                RT::Fn(parse_dim(a), parse_dim(r))
            } else {
                RT::Dim(parse_dim(t))
            };
            (n.to_string(), rt)
        })
        .collect()
}

/// value of a constant exponent expression (numbers, unary minus, + - * /), None if it is anything else
fn const_value(e: &Expression) -> Option<Q> {
    match e {
        Expression::Scalar(_, n) => {
            let v = n.to_f64();
            if v.fract() == 0.0 && v.abs() < 1000.0 {
                Some(Q::int(v as i64))
            } else {
                None
            }
        }
        Expression::UnaryOperator { op: UnaryOperator::Negate, expr, .. } => const_value(expr).map(Q::neg),
        Expression::BinaryOperator { op, lhs, rhs, .. } => {
            let (l, r) = (const_value(lhs)?, const_value(rhs)?);
            let v = match op {
                BinaryOperator::Add => l.add(r),
                BinaryOperator::Sub => l.add(r.neg()),
                BinaryOperator::Mul => l.mul(r),
                BinaryOperator::Div => {
                    if r.is_zero() {
                        return None;
                    }
                    l.mul(Q::new(r.1, r.0))
                }
                _ => return None,
            };
            if v.small() {
                Some(v)
            } else {
                None
            }
        }
        _ => None,
    }
}

fn has_identifier(e: &Expression) -> bool {
    match e {
        Expression::Identifier(..) | Expression::UnitIdentifier { .. } => true,
        Expression::UnaryOperator { expr, .. } => has_identifier(expr),
        Expression::BinaryOperator { lhs, rhs, .. } => has_identifier(lhs) || has_identifier(rhs),
        Expression::Scalar(..) => false,
        _ => true,
    }
}

fn dim_of(t: RT) -> Result<Dim, No> {
    match t {
        RT::Dim(d) => Ok(d),
        _ => Err(No::IllKinded),
    }
}

fn same_dims(l: RT, r: RT) -> Result<Dim, No> {
    let (l, r) = (dim_of(l)?, dim_of(r)?);
    if l == r {
        Ok(l)
    } else {
        Err(No::Inconsistent)
    }
}

fn unify(l: RT, r: RT) -> Result<RT, No> {
    match (l, r) {
        (RT::Dim(a), RT::Dim(b)) => {
            if a == b {
                Ok(RT::Dim(a))
            } else {
                Err(No::Inconsistent)
            }
        }
        (RT::List(a), RT::List(b)) => Ok(RT::List(Box::new(unify(*a, *b)?))),
        (a, b) => {
            if a == b {
                Ok(a)
            } else {
                Err(No::IllKinded)
            }
        }
    }
}

fn ref_type(e: &Expression, names: &Names) -> Result<RT, No> {
    match e {
        Expression::Scalar(_, n) => {
            let v = n.to_f64();
            // 0, inf and NaN are dimension-polymorphic literals: outside the reference
            if v == 0.0 || !v.is_finite() {
                Err(No::Skip)
            } else {
                Ok(RT::Dim(SCALAR))
            }
        }
        Expression::Identifier(_, name) => {
            for (n, t) in names {
                if n.as_str() == *name {
                    return Ok(t.clone());
                }
            }
            Err(No::Skip)
        }
        Expression::Boolean(..) => Ok(RT::Bool),
        Expression::String(_, parts) => {
            if parts.len() <= 1 {
                Ok(RT::Str)
            } else {
                Err(No::Skip)
            }
        }
        Expression::UnaryOperator { op, expr, .. } => {
            let t = ref_type(expr, names)?;
            match op {
                UnaryOperator::Negate => Ok(RT::Dim(dim_of(t)?)),
                UnaryOperator::LogicalNeg => {
                    if t == RT::Bool {
                        Ok(RT::Bool)
                    } else {
                        Err(No::IllKinded)
                    }
                }
                UnaryOperator::Factorial(_) => {
                    if dim_of(t)? == SCALAR {
                        Ok(RT::Dim(SCALAR))
                    } else {
                        Err(No::Inconsistent)
                    }
                }
            }
        }
        Expression::BinaryOperator { op, lhs, rhs, .. } => {
            let l = ref_type(lhs, names);
            let r = ref_type(rhs, names);
            // an error in either operand is an error of the whole (a skip anywhere is a skip)
            let (l, r) = match (l, r) {
                (Err(No::Skip), _) | (_, Err(No::Skip)) => return Err(No::Skip),
                (Err(x), _) | (_, Err(x)) => return Err(x),
                (Ok(l), Ok(r)) => (l, r),
            };
            match op {
                BinaryOperator::Add | BinaryOperator::Sub => Ok(RT::Dim(same_dims(l, r)?)),
                BinaryOperator::ConvertTo => {
                    if matches!(r, RT::Fn(..)) {
                        return Err(No::Skip);
                    }
                    Ok(RT::Dim(same_dims(l, r)?))
                }
                BinaryOperator::Mul | BinaryOperator::Div => {
                    let (a, b) = (dim_of(l)?, dim_of(r)?);
                    let s = if *op == BinaryOperator::Mul { 1 } else { -1 };
                    Ok(RT::Dim([a[0].add(b[0].mul(Q::int(s))), a[1].add(b[1].mul(Q::int(s)))]))
                }
                BinaryOperator::Power => {
                    let (a, b) = (dim_of(l)?, dim_of(r)?);
                    if b != SCALAR {
                        return Err(No::Inconsistent);
                    }
                    if a == SCALAR {
                        return Ok(RT::Dim(SCALAR));
                    }
                    // a dimensionful base: the exponent has to be a compile-time constant (premise of the property)
                    if has_identifier(rhs) {
                        return Err(No::Skip);
                    }
                    match const_value(rhs) {
                        Some(x) => {
                            let d = [a[0].mul(x), a[1].mul(x)];
                            if d[0].small() && d[1].small() {
                                Ok(RT::Dim(d))
                            } else {
                                Err(No::Skip)
                            }
                        }
                        None => Err(No::Skip),
                    }
                }
                BinaryOperator::LessThan
                | BinaryOperator::GreaterThan
                | BinaryOperator::LessOrEqual
                | BinaryOperator::GreaterOrEqual => {
                    same_dims(l, r)?;
                    Ok(RT::Bool)
                }
                BinaryOperator::Equal | BinaryOperator::NotEqual => {
                    if matches!(l, RT::Fn(..)) || matches!(r, RT::Fn(..)) {
                        return Err(No::IllKinded);
                    }
                    unify(l, r)?;
                    Ok(RT::Bool)
                }
                BinaryOperator::LogicalAnd | BinaryOperator::LogicalOr => {
                    if l == RT::Bool && r == RT::Bool {
                        Ok(RT::Bool)
                    } else {
                        Err(No::IllKinded)
                    }
                }
            }
        }
        Expression::Condition { condition, then_expr, else_expr, .. } => {
            let c = ref_type(condition, names);
            let t = ref_type(then_expr, names);
            let f = ref_type(else_expr, names);
            match (&c, &t, &f) {
                (Err(No::Skip), _, _) | (_, Err(No::Skip), _) | (_, _, Err(No::Skip)) => return Err(No::Skip),
                _ => {}
            }
            let (c, t, f) = (c?, t?, f?);
            if c != RT::Bool {
                return Err(No::IllKinded);
            }
            unify(t, f)
        }
        Expression::List(_, elems) => {
            if elems.is_empty() {
                return Err(No::Skip);
            }
            let mut ts = Vec::new();
            for e in elems {
                ts.push(ref_type(e, names));
            }
            if ts.iter().any(|t| matches!(t, Err(No::Skip))) {
                return Err(No::Skip);
            }
            let mut it = ts.into_iter();
            let mut acc = it.next().unwrap()?;
            for t in it {
                acc = unify(acc, t?)?;
            }
            Ok(RT::List(Box::new(acc)))
        }
        Expression::FunctionCall { callable, args, .. } => {
            let c = ref_type(callable, names)?;
            let RT::Fn(p, r) = c else { return Err(No::Skip) };
            if args.len() != 1 {
                return Err(No::Skip);
            }
            let a = ref_type(&args[0], names)?;
            let a = dim_of(a)?;
            if a == p {
                Ok(RT::Dim(r))
            } else {
                Err(No::Inconsistent)
            }
        }
        _ => Err(No::Skip),
    }
}

/// the checker's type as a reference type (None: generic, struct, date-time — not compared)
fn real_type(t: &Type) -> Option<RT> {
    match t {
        Type::Dimension(d) => {
            let mut v = SCALAR;
            for (f, n) in d.factors() {
                let q = Q::new(*n.numer() as i64, *n.denom() as i64);
                match f {
                    DTypeFactor::BaseDimension(name) if name.as_str() == "Length" => v[0] = v[0].add(q),
                    DTypeFactor::BaseDimension(name) if name.as_str() == "Time" => v[1] = v[1].add(q),
                    _ => return None,
                }
            }
            Some(RT::Dim(v))
        }
        Type::Boolean => Some(RT::Bool),
        Type::String => Some(RT::Str),
        Type::List(e) => real_type(e).map(|e| RT::List(Box::new(e))),
        Type::Fn(args, ret) => {
            if args.len() != 1 {
                return None;
            }
            match (real_type(&args[0])?, real_type(ret)?) {
                (RT::Dim(a), RT::Dim(r)) => Some(RT::Fn(a, r)),
                _ => None,
            }
        }
        _ => None,
    }
}

fn real_type_of(ts: &TypeScheme) -> Option<RT> {
    match ts {
        TypeScheme::Concrete(t) => real_type(t),
        TypeScheme::Quantified(0, qt) => real_type(&qt.inner),
        TypeScheme::Quantified(..) => None,
    }
}

fn value_matches(v: &Value, t: &RT) -> bool {
    match (v, t) {
        (Value::Quantity(q), RT::Dim(d)) => {
            let (base, _) = q.unit().to_base_unit_representation();
            let mut got = SCALAR;
            for f in base.iter() {
                let e = Q::new(*f.exponent.numer() as i64, *f.exponent.denom() as i64);
                match f.unit_id.name.as_str() {
                    "meter" => got[0] = got[0].add(e),
                    "second" => got[1] = got[1].add(e),
                    _ => return false,
                }
            }
            got == *d
        }
        (Value::Boolean(_), RT::Bool) => true,
        (Value::String(_), RT::Str) => true,
        (Value::FunctionReference(_), RT::Fn(..)) => true,
        (Value::List(l), RT::List(e)) => l.iter().all(|x| value_matches(x, e)),
        _ => false,
    }
}

#[unsafe(no_mangle)]
pub extern "C" fn h_c02_accept() {
    init_tags();
    let prelude = cfg(1).expect("cfg 1");
    let spelled: Vec<String> = cfg(2).expect("cfg 2").split_ascii_whitespace().map(|s| s.to_string()).collect();
    let names = parse_names(&cfg(3).expect("cfg 3"));
    let mode_c01 = cfg(4).map(|m| m.trim() == "c01").unwrap_or(false);
    let mut session = Session::new(&prelude);
    checkpoint();
    let pattern = cfg(0).expect("cfg 0");
    let mut ks: Vec<u64> = Vec::new();
    for (i, item) in pattern.split_ascii_whitespace().enumerate() {
        if item == "s" || item == "o" {
            let k = u64_(i as u32);
            let mut ok = false;
            if item == "s" {
                for a in 0..K {
                    ok |= k == tag(a);
                }
            } else {
                for a in OPS {
                    ok |= k == tag(a);
                }
            }
            assume(ok);
            ks.push(k);
        } else {
            ks.push(tag(item.parse().expect("kind index")));
        }
    }
    if ks.is_empty() {
        return;
    }
    // 1. the real parser on the symbolic kinds: the filter for "is in the grammar", and the tree the reference types
    let lexemes: Vec<&'static str> = spelled.iter().map(|s| &*Box::leak(s.clone().into_boxed_str())).collect();
    let tokens = make_tokens_named(&ks, &lexemes);
    let stmts = match verif_parse_tokens(&tokens) {
        Ok(s) => s,
        Err(_) => {
            cover("c02-outside-grammar");
            return;
        }
    };
    let expectation = match stmts.last() {
        Some(numbat::verif_hooks::ast::Statement::Expression(e)) if stmts.len() == 1 => ref_type(e, &names),
        _ => Err(No::Skip),
    };
    // 2. the kinds are fixed by the path: the source text
    let a = alphabet();
    let mut text = String::new();
    for (pos, &k) in ks.iter().enumerate() {
        let mut idx = K;
        for i in 0..K {
            if k == tag(i) {
                idx = i;
                break;
            }
        }
        if !text.is_empty() {
            text.push(' ');
        }
        text.push_str(if idx == NUM {
            "2"
        } else if idx == ID {
            lexemes[pos % lexemes.len()]
        } else {
            a[idx as usize].1
        });
    }
    obs_str("c02-input", &text);
    // 3. whole pipeline; the expression is the last statement of an input that first defines and prints something
    let input = format!("let z9 = 1\nprint(z9)\n{text}");
    let printed_before = session.printed_count();
    let printed = session.printed.clone();
    let mut settings = numbat::InterpreterSettings {
        print_fn: Box::new(move |m: &numbat::markup::Markup| {
            printed.lock().unwrap().push(m.to_string());
        }),
    };
    let result = session.ctx.interpret_with_settings(&mut settings, &input, numbat::resolver::CodeSource::Text);
    match result {
        Err(e) => match *e {
            numbat::NumbatError::TypeCheckError(_) => {
                cover("c02-rejected-by-the-checker");
                if mode_c01 {
                    return;
                }
                match expectation {
                    Ok(_) => check(false, "consistent-expression-is-accepted"),
                    Err(_) => {}
                }
                // rejected as a whole, before any statement ran
                check(session.printed_count() == printed_before, "rejected-input-prints-nothing");
                let defined = matches!(session.run("z9"), Outcome::Value(_));
                check(!defined, "rejected-input-defines-nothing");
            }
            numbat::NumbatError::RuntimeError(re) => {
                cover("c02-accepted-run-time-error");
                if mode_c01 {
                    match re.kind {
                        RuntimeErrorKind::QuantityError(QuantityError::IncompatibleUnits(_, _)) => {
                            check(false, "no-unit-incompatibility-at-run-time")
                        }
                        RuntimeErrorKind::DivisionByZero
                        | RuntimeErrorKind::FactorialOfNegativeNumber
                        | RuntimeErrorKind::FactorialOfNonInteger
                        | RuntimeErrorKind::QuantityError(QuantityError::NonRationalExponent)
                        | RuntimeErrorKind::EmptyList => {}
                        _ => check(false, "only-documented-runtime-errors"),
                    }
                } else {
                    match expectation {
                        Err(No::Inconsistent) => check(false, "inconsistent-expression-is-rejected"),
                        Err(No::IllKinded) => check(false, "ill-kinded-expression-is-rejected"),
                        _ => {}
                    }
                }
            }
            numbat::NumbatError::ResolverError(_) => {
                // the text is tokenized again and may read differently from the token sequence (`2 . c`): C10's subject
                cover("c02-text-reads-differently");
            }
            _ => {
                // all names are defined
                check(false, "expression-reaches-the-checker");
            }
        },
        Ok((typed, r)) => {
            cover("c02-accepted");
            let ty = match typed.last() {
                Some(Statement::Expression(e)) => real_type_of(&e.get_type_scheme()),
                _ => None,
            };
            if mode_c01 {
                // the value carries the dimension the CHECKER inferred (a zero may be shown as a plain scalar)
                if let (Some(t), numbat::InterpreterResult::Value(v)) = (&ty, &r) {
                    cover("c01-typed-value");
                    let zero_scalar = matches!(v, Value::Quantity(q) if q.unsafe_value().to_f64() == 0.0 && q.unit().is_scalar());
                    check(value_matches(v, t) || zero_scalar, "run-time-dimension-equals-static-type");
                }
                return;
            }
            match expectation {
                Ok(t) => {
                    cover("c02-accepted-as-expected");
                    match ty {
                        Some(got) => check(got == t, "reported-type-equals-dimensional-analysis"),
                        None => check(false, "reported-type-is-concrete"),
                    }
                }
                Err(No::Inconsistent) => check(false, "inconsistent-expression-is-rejected"),
                Err(No::IllKinded) => check(false, "ill-kinded-expression-is-rejected"),
                Err(No::Skip) => cover("c02-outside-reference"),
            }
        }
    }
}
