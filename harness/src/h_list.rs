//! C18 — lists behave as immutable values despite internal sharing.
//!
//! h_c18_step: ONE operation from an arbitrary representation state that satisfies the
//!   representation invariant  view = None  or  view = (s, e) with s <= e == alloc.len()
//!   (proved here to be re-established by every operation, which closes the induction over
//!   histories of any length). Structure is concrete per case, elements and the operation symbolic.
//!     cfg 0 = n (allocation length), cfg 1 = rotation of the ring buffer (0/1),
//!     cfg 2 = view of h1: "-" or start index, cfg 3 = other handle: "-" (h1 is the sole owner),
//!             "n" (shares the allocation, no view) or a start index (shares, view (t, n))
//!     u64 0..n-1 = element values, u64 30 = operation, u64 31 = pushed element
//! h_c18_hist: bounded histories from `new()` through the public API only (no hooks): k symbolic
//!   operations over three handle slots; checks the same claims plus that every reached state
//!   satisfies the invariant assumed by h_c18_step (so the invariant is not too strong).
//!     cfg 0 = k, cfg 1 = first operation (fixed per case), u64 40+i = operation i, u64 50+i = element i

use std::collections::VecDeque;
use std::sync::Arc;

use numbat::list::NumbatList;

use crate::sym::*;

type L = NumbatList<u64>;

fn contents(l: &L) -> Vec<u64> {
    l.iter().cloned().collect()
}

fn invariant(l: &L) -> bool {
    let (alloc, view) = l.verif_parts();
    match view {
        None => true,
        Some((s, e)) => s <= e && e == alloc.len(),
    }
}

fn same(a: &[u64], b: &[u64]) -> bool {
    if a.len() != b.len() {
        return false;
    }
    let mut ok = true;
    for i in 0..a.len() {
        ok &= a[i] == b[i];
    }
    ok
}

fn cfg_str(i: u32) -> String {
    cfg(i).expect("cfg").trim().to_string()
}

#[unsafe(no_mangle)]
pub extern "C" fn h_c18_step() {
    checkpoint();
    let n: usize = cfg_str(0).parse().unwrap();
    let rot: usize = cfg_str(1).parse().unwrap();
    let v1 = cfg_str(2);
    let other = cfg_str(3);

    // allocation with symbolic contents; `rot` elements are pushed to the front so that the ring
    // buffer's head is not at physical index 0
    let elems: Vec<u64> = (0..n).map(|i| u64_(i as u32)).collect();
    let rot = rot.min(n);
    let mut dq: VecDeque<u64> = VecDeque::with_capacity(8);
    for i in rot..n {
        dq.push_back(elems[i]);
    }
    for i in (0..rot).rev() {
        dq.push_front(elems[i]);
    }
    let alloc = Arc::new(dq);

    let view1 = if v1 == "-" { None } else { Some((v1.parse::<usize>().unwrap(), n)) };
    let mut h1: L = NumbatList::verif_from_parts(alloc.clone(), view1);
    let mut model1: Vec<u64> = match view1 {
        None => elems.clone(),
        Some((s, e)) => elems[s..e].to_vec(),
    };
    let h2: Option<L> = if other == "-" {
        None
    } else if other == "n" {
        Some(NumbatList::verif_from_parts(alloc.clone(), None))
    } else {
        Some(NumbatList::verif_from_parts(alloc.clone(), Some((other.parse::<usize>().unwrap(), n))))
    };
    let model2: Option<Vec<u64>> = h2.as_ref().map(|h| {
        let (_, v) = h.verif_parts();
        match v {
            None => elems.clone(),
            Some((s, e)) => elems[s..e].to_vec(),
        }
    });
    drop(alloc); // only the handles own the allocation now
    check(invariant(&h1), "pre-state-satisfies-invariant");
    check(same(&contents(&h1), &model1), "pre-state-view-semantics");

    let op = u64_(30);
    assume(op < 9);
    let x = u64_(31);
    let mut consumed = false;
    match op {
        0 => {
            h1.push_front(x);
            model1.insert(0, x);
            cover("c18-step-push-front");
        }
        1 => {
            h1.push_back(x);
            model1.push(x);
            cover("c18-step-push-back");
        }
        2 => {
            let r = h1.tail();
            if model1.is_empty() {
                check(r.is_err(), "tail-of-empty-is-an-error");
            } else {
                check(r.is_ok(), "tail-of-non-empty-succeeds");
                model1.remove(0);
            }
            cover("c18-step-tail");
        }
        3 => {
            let r = h1.clone().head();
            check(r == model1.first().cloned(), "head-is-first-element");
            let h1b = std::mem::take(&mut h1);
            let r2 = h1b.head(); // consumes the handle (sole-owner path of `head`)
            check(r2 == model1.first().cloned(), "head-is-first-element");
            consumed = true;
            cover("c18-step-head");
        }
        4 => {
            check(h1.len() == model1.len(), "len-is-number-of-elements");
            cover("c18-step-len");
        }
        5 => {
            check(h1.is_empty() == model1.is_empty(), "is-empty-iff-no-elements");
            cover("c18-step-is-empty");
        }
        6 => {
            let mut h3 = h1.clone();
            check(same(&contents(&h3), &model1), "copy-has-same-elements");
            check(h3 == h1, "copy-equals-original");
            h3.push_back(x);
            let mut m3 = model1.clone();
            m3.push(x);
            check(same(&contents(&h3), &m3), "copy-evolves-independently");
            check(invariant(&h3), "invariant-re-established");
            cover("c18-step-copy");
        }
        7 => {
            if let (Some(h2), Some(m2)) = (&h2, &model2) {
                check((h1 == *h2) == same(&model1, m2), "equality-is-elementwise");
                check((*h2 == h1) == same(&model1, m2), "equality-is-elementwise");
            }
            let fresh: L = {
                let mut f = NumbatList::new();
                for v in &model1 {
                    f.push_back(*v);
                }
                f
            };
            check(h1 == fresh, "equality-ignores-sharing");
            cover("c18-step-eq");
        }
        _ => {
            check(same(&contents(&h1), &model1), "iteration-yields-elements");
            cover("c18-step-iter");
        }
    }
    if !consumed {
        check(same(&contents(&h1), &model1), "operated-list-holds-expected-elements");
        check(h1.len() == model1.len(), "len-is-number-of-elements");
        check(invariant(&h1), "invariant-re-established");
    }
    if let (Some(h2), Some(m2)) = (&h2, &model2) {
        check(same(&contents(h2), m2), "other-list-unchanged");
        check(invariant(h2), "invariant-re-established");
    }
}

#[unsafe(no_mangle)]
pub extern "C" fn h_c18_hist() {
    checkpoint();
    let k: usize = cfg_str(0).parse().unwrap();
    let first: u64 = cfg_str(1).parse().unwrap();
    let mut slots: [Option<L>; 3] = [Some(NumbatList::new()), None, None];
    let mut models: [Option<Vec<u64>>; 3] = [Some(Vec::new()), None, None];
    for step in 0..k {
        let op = u64_(40 + step as u32);
        assume(op < 18);
        if step == 0 {
            assume(op == first);
        }
        if step == 1 {
            if let Some(second) = cfg(2) {
                assume(op == second.trim().parse::<u64>().unwrap());
            }
        }
        let x = u64_(50 + step as u32);
        let (kind, i, j) = match op {
            0..=2 => (0, op as usize, 0),
            3..=5 => (1, (op - 3) as usize, 0),
            6..=8 => (2, (op - 6) as usize, 0),
            9..=11 => (3, (op - 9) as usize, 0),
            _ => {
                let c = (op - 12) as usize; // ordered pairs i != j
                let i = c / 2;
                let j = [[1, 2], [0, 2], [0, 1]][i][c % 2];
                (4, i, j)
            }
        };
        // operations on an empty slot are skipped (not part of any history)
        if slots[i].is_none() {
            assume(false);
        }
        match kind {
            0 => {
                slots[i].as_mut().unwrap().push_front(x);
                models[i].as_mut().unwrap().insert(0, x);
            }
            1 => {
                slots[i].as_mut().unwrap().push_back(x);
                models[i].as_mut().unwrap().push(x);
            }
            2 => {
                let r = slots[i].as_mut().unwrap().tail();
                let m = models[i].as_mut().unwrap();
                if m.is_empty() {
                    check(r.is_err(), "tail-of-empty-is-an-error");
                } else {
                    check(r.is_ok(), "tail-of-non-empty-succeeds");
                    m.remove(0);
                }
            }
            3 => {
                let h = slots[i].take().unwrap();
                let m = models[i].take().unwrap();
                check(h.head() == m.first().cloned(), "head-is-first-element");
            }
            _ => {
                let c = slots[i].as_ref().unwrap().clone();
                slots[j] = Some(c);
                models[j] = models[i].clone();
            }
        }
        for s in 0..3 {
            if let (Some(h), Some(m)) = (&slots[s], &models[s]) {
                check(same(&contents(h), m), "every-list-holds-expected-elements");
                check(h.len() == m.len(), "len-is-number-of-elements");
                check(invariant(h), "reached-state-satisfies-invariant");
            }
        }
    }
    cover("c18-hist-completed");
    // equality agrees with element-wise equality irrespective of sharing
    if let (Some(a), Some(b), Some(ma), Some(mb)) = (&slots[0], &slots[1], &models[0], &models[1]) {
        check((a == b) == same(ma, mb), "equality-is-elementwise");
    }
}
