//! nbverif — harness entry points executed symbolically by LLSE (from this crate's LTO-merged
//! LLVM IR) and natively (catalog, replay of solver models, differential self-test).
//!
//! usage: nbverif <entry>            run a harness entry natively (inputs from $VERIF_REPLAY)
//!        nbverif catalog            dump the unit catalog of the current tree's prelude (JSON lines)

mod catalog;
mod h_accept;
mod h_arith;
mod h_assert;
mod h_c08;
mod h_cmp;
mod h_constraints;
mod h_conv;
mod h_datetime;
mod h_echo;
mod h_html;
mod h_list;
mod h_literal;
mod h_number;
mod h_parse;
mod h_prog;
mod h_simplify;
mod h_sound;
mod h_string;
mod h_temperature;
mod h_token;
mod session;
mod sym;
mod units;

type Entry = extern "C" fn();

/// Every harness entry point is listed here so that it is reachable from `main` (LTO keeps only
/// reachable code) and can be run natively by name.
const ENTRIES: &[(&str, Entry)] = &[
    ("h_selftest", h_cmp::h_selftest),
    ("h_c11_api", h_cmp::h_c11_api),
    ("h_c11_vm", h_cmp::h_c11_vm),
    ("h_c12_api", h_cmp::h_c12_api),
    ("h_c20_writer", h_html::h_c20_writer),
    ("h_c20_format", h_html::h_c20_format),
    ("h_c21_assert", h_assert::h_c21_assert),
    ("h_c21_eq2", h_assert::h_c21_eq2),
    ("h_c21_eq3", h_assert::h_c21_eq3),
    ("h_c08_factorial", h_c08::h_c08_factorial),
    ("h_c08_factorial_text", h_c08::h_c08_factorial_text),
    ("h_c08_exponent", h_c08::h_c08_exponent),
    ("h_c08_dtype", h_c08::h_c08_dtype),
    ("h_c08_exponent_text", h_c08::h_c08_exponent_text),
    ("h_c08_dtype_text", h_c08::h_c08_dtype_text),
    ("h_c04_convert", h_conv::h_c04_convert),
    ("h_c04_scaling", h_conv::h_c04_scaling),
    ("h_c09_prog", h_prog::h_c09_prog),
    ("h_c05_simplify", h_simplify::h_c05_simplify),
    ("h_c03_arith", h_arith::h_c03_arith),
    ("h_c01_sound", h_sound::h_c01_sound),
    ("h_c08_tokenizer", h_token::h_c08_tokenizer),
    ("h_c19_add", h_datetime::h_c19_add),
    ("h_c19_add_text", h_datetime::h_c19_add_text),
    ("h_c15_string", h_string::h_c15_string),
    ("h_c15_expr", h_echo::h_c15_expr),
    ("h_c16_infer", h_echo::h_c16_infer),
    ("h_c02_accept", h_accept::h_c02_accept),
    ("h_c06_rollback", h_echo::h_c06_rollback),
    ("h_c07_batch", h_echo::h_c07_batch),
    ("h_c14_integer", h_number::h_c14_integer),
    ("h_c23_temperature", h_temperature::h_c23_temperature),
    ("h_c02_solve", h_constraints::h_c02_solve),
    ("h_c10_parse", h_parse::h_c10_parse),
    ("h_c10_literal", h_literal::h_c10_literal),
    ("h_c18_step", h_list::h_c18_step),
    ("h_c18_hist", h_list::h_c18_hist),
];

fn main() {
    let args: Vec<String> = std::env::args().collect();
    let cmd = args.get(1).map(|s| s.as_str()).unwrap_or("");
    if cmd == "catalog" {
        catalog::dump();
        return;
    }
    if cmd == "entries" {
        for (n, _) in ENTRIES {
            println!("{n}");
        }
        return;
    }
    for (n, f) in ENTRIES {
        if *n == cmd {
            f();
            println!("DONE");
            return;
        }
    }
    eprintln!("unknown entry {cmd}");
    std::process::exit(2);
}
