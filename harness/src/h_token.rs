//! Tokenizer kernel (C08: no input crashes the tokenizer; C10: operator spellings map to the documented tokens and
//! nothing else is reinterpreted as an operator).
//!
//!   cfg 0 = pattern, space separated: "a" = symbolic ASCII byte from the alphabet below, "U+XXXX" = that character
//!   u64 i = byte of position i (symbolic positions)
//! Alphabet of symbolic bytes: operators, brackets, whitespace, digits, `"` and `#` — no identifier characters
//! (identifiers go through a keyword hash map, whose bucket address would become symbolic).

use numbat::verif_hooks::tokenizer::{tokenize, TokenKind};

use crate::sym::*;

const ALPHABET: &[u8] = b"()[]<>=?&|*+/^,@-!:.; \n\t0123456789\"#";

fn kind_name(k: &TokenKind) -> &'static str {
    match k {
        TokenKind::LeftParen => "(",
        TokenKind::RightParen => ")",
        TokenKind::LeftBracket => "[",
        TokenKind::RightBracket => "]",
        TokenKind::Plus => "+",
        TokenKind::Minus => "-",
        TokenKind::Multiply => "*",
        TokenKind::Power => "^",
        TokenKind::Divide => "/",
        TokenKind::Comma => ",",
        TokenKind::Arrow => "->",
        TokenKind::Equal => "=",
        TokenKind::Colon => ":",
        TokenKind::DoubleColon => "::",
        TokenKind::PostfixApply => "|>",
        TokenKind::UnicodeExponent => "uexp",
        TokenKind::At => "@",
        TokenKind::Ellipsis => "...",
        TokenKind::ExclamationMark => "!",
        TokenKind::EqualEqual => "==",
        TokenKind::NotEqual => "!=",
        TokenKind::LessThan => "<",
        TokenKind::GreaterThan => ">",
        TokenKind::LessOrEqual => "<=",
        TokenKind::GreaterOrEqual => ">=",
        TokenKind::LogicalAnd => "&&",
        TokenKind::LogicalOr => "||",
        TokenKind::Period => ".",
        TokenKind::QuestionMark => "?",
        TokenKind::Newline => "nl",
        TokenKind::Semicolon => ";",
        TokenKind::Eof => "eof",
        _ => "other",
    }
}

fn is_exponent_char(c: char) -> bool {
    matches!(c, '¹' | '²' | '³' | '⁴' | '⁵' | '⁶' | '⁷' | '⁸' | '⁹')
}

/// Reference tokenization of strings made of operator characters only: longest match over the documented spellings.
/// `None` = the string contains something else (digits, quotes, comments …) and the reference does not apply.
fn reference(cs: &[char]) -> Option<Result<Vec<&'static str>, ()>> {
    // applicable only if every character is an operator / bracket / whitespace character
    for &c in cs {
        let op = matches!(c, ' ' | '\t' | '\r' | '\n' | ';' | '(' | ')' | '[' | ']' | '≤' | '<' | '≥' | '>' | '?' | '&' | '|' | '*' | '·' | '⋅' | '×'
            | '+' | '/' | '÷' | '^' | ',' | '⩵' | '=' | '@' | '→' | '➞' | '-' | '−' | '≠' | '!' | ':' | '…' | '.' | '⁻') || is_exponent_char(c);
        if !op {
            return None;
        }
    }
    let mut out = Vec::new();
    let mut i = 0;
    let at = |j: usize| -> Option<char> { cs.get(j).copied() };
    while i < cs.len() {
        let c = cs[i];
        let n = at(i + 1);
        let (name, len): (&'static str, usize) = match c {
            ' ' | '\t' | '\r' => ("", 1),
            '\n' => ("nl", 1),
            ';' => (";", 1),
            '(' => ("(", 1),
            ')' => (")", 1),
            '[' => ("[", 1),
            ']' => ("]", 1),
            '≤' => ("<=", 1),
            '<' => if n == Some('=') { ("<=", 2) } else { ("<", 1) },
            '≥' => (">=", 1),
            '>' => if n == Some('=') { (">=", 2) } else { (">", 1) },
            '?' => ("?", 1),
            '&' => if n == Some('&') { ("&&", 2) } else { return Some(Err(())) },
            '|' => if n == Some('|') { ("||", 2) } else if n == Some('>') { ("|>", 2) } else { return Some(Err(())) },
            '*' => if n == Some('*') { ("^", 2) } else { ("*", 1) },
            '·' | '⋅' | '×' => ("*", 1),
            '+' => ("+", 1),
            '/' | '÷' => ("/", 1),
            '^' => ("^", 1),
            ',' => (",", 1),
            '⩵' => ("==", 1),
            '=' => if n == Some('=') { ("==", 2) } else { ("=", 1) },
            '@' => ("@", 1),
            '→' | '➞' => ("->", 1),
            '-' => if n == Some('>') { ("->", 2) } else { ("-", 1) },
            '−' => ("-", 1),
            '≠' => ("!=", 1),
            '!' => if n == Some('=') { ("!=", 2) } else { ("!", 1) },
            ':' => if n == Some(':') { ("::", 2) } else { (":", 1) },
            '…' => ("...", 1),
            '.' => if n == Some('.') && at(i + 2) == Some('.') { ("...", 3) } else { return Some(Err(())) },
            '⁻' => if n.map(is_exponent_char).unwrap_or(false) { ("uexp", 2) } else { return Some(Err(())) },
            c if is_exponent_char(c) => ("uexp", 1),
            _ => return None,
        };
        if !name.is_empty() {
            out.push(name);
        }
        i += len;
    }
    out.push("eof");
    Some(Ok(out))
}

#[unsafe(no_mangle)]
pub extern "C" fn h_c08_tokenizer() {
    checkpoint();
    let pattern = cfg(0).expect("cfg 0");
    let mut chars: Vec<char> = Vec::new();
    let mut text = String::new();
    for (i, item) in pattern.split_ascii_whitespace().enumerate() {
        if item == "a" {
            let b = u64_(i as u32);
            let mut ok = false;
            for &x in ALPHABET {
                ok |= b == x as u64;
            }
            assume(ok);
            let c = b as u8 as char;
            chars.push(c);
            text.push(c);
        } else {
            let cp = u32::from_str_radix(item.trim_start_matches("U+"), 16).expect("code point");
            let c = char::from_u32(cp).expect("char");
            chars.push(c);
            text.push(c);
        }
    }
    let r = tokenize(&text, 0);
    cover("c08-tokenizer-returned");
    let want = reference(&chars);
    match &r {
        Ok(tokens) => {
            // well-formed token stream
            check(!tokens.is_empty() && tokens[tokens.len() - 1].kind == TokenKind::Eof, "token-stream-ends-with-eof");
            let mut prev_end = 0usize;
            let mut ok = true;
            for t in &tokens[..tokens.len() - 1] {
                let s = t.span.start.as_usize();
                let e = t.span.end.as_usize();
                ok &= s >= prev_end && e > s && e <= text.len();
                ok &= t.lexeme.len() == e - s && t.lexeme.as_ptr() as usize == text.as_ptr() as usize + s;
                prev_end = e;
            }
            check(ok, "token-spans-are-ordered-in-bounds-and-match-lexemes");
            if let Some(w) = want {
                match w {
                    Ok(names) => {
                        let got: Vec<&'static str> = tokens.iter().map(|t| kind_name(&t.kind)).collect();
                        check(got == names, "operator-spellings-map-to-documented-tokens");
                        cover("c08-tokenizer-reference-agrees-on-accept");
                    }
                    Err(()) => check(false, "input-outside-grammar-is-rejected"),
                }
            }
        }
        Err(_) => {
            if let Some(Ok(_)) = want {
                check(false, "documented-operator-spelling-is-accepted");
            }
        }
    }
}
