#!/bin/sh
# Offline set-up: build the harness crate against /repo (native binary + LLVM IR) and check the solver stack.
set -e
cd "$(dirname "$0")"
export CARGO_NET_OFFLINE=true
python3-vt -c "import z3; print('z3', z3.get_version_string())"
mkdir -p .cache evidence replays
[ -f harness/Cargo.lock ] || cp /repo/Cargo.lock harness/Cargo.lock
(cd harness && CARGO_TARGET_DIR="$PWD/../.cache/target" cargo rustc --release --offline --bin nbverif -- --emit=llvm-ir,link -C no-vectorize-loops -C no-vectorize-slp)
echo setup ok
