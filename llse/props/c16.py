"""C16 (partial) — inferred function signatures are valid, principal annotations: two-parameter functions whose bodies are operator expressions."""
LEVEL = 'model_checking'
LIMITS = {'max_unsupported': 0, 'max_undecided_frac': 0.01}
OUTSIDE = ['function bodies outside the enumerated shapes: more than two parameters, calls to generic library functions (sqrt, abs, …: no prelude is loaded), rational powers other than the integer powers the token alphabet spells (^ 2, ²), where-clauses, recursion, bodies longer than the stated bounds',
           'call sites other than the listed argument lists (scalars, one or two base units, a square); the claim "every call that type-checks against the inferred version type-checks against the annotated one" is decided for these call sites only',
           'generic parameters are inferred; explicit generic annotations written by the user are not generated']
ASSUMPTIONS = ['the body\'s token kinds are symbolic over the 37-kind expression alphabet of C10 (operators, brackets, if/then/else, literals); Identifier tokens are the parameters a and b alternately, Number tokens the literal 2',
               'the session defines two base dimensions with one unit each (meter, second) and nothing else; each path interprets `fn g(a, b) = body`, the call sites, the echoed (annotated) definition, and the call sites again through the whole real pipeline (Context::interpret)']

PRELUDE = 'dimension Scalar = 1\ndimension Length\ndimension Time\nunit meter: Length\nunit second: Time\n'
CALLS = '2, 3; 2 meter, 3; 2 meter, 3 meter; 2 meter, 3 second; 2 meter^2, 3 meter'

def bounds(tier):
    n = 3 if tier == 'quick' else 4
    return {'bodies': 'every token sequence of 1..%d tokens that the real parser accepts as an expression (first token fixed per case, the rest symbolic) plus templates a o b o a, a o 2 o b, ( a o b ) o a, a o ( b o 2 ), - a o b, a o b ², a ² o b, if a o b then a else b, if a o 2 then a o b else b o a, 2 o ( a o b ), 2 o a o b … with the operator positions symbolic over the 23 operators' % n,
            'call_sites': CALLS}

def exhaustive(tier): return False

def plan(tier, rnd, units):
    from . import c10
    K = c10.K; x = str(c10.ID); n2 = str(c10.NUM)
    n = 3 if tier == 'quick' else 4
    cases = []
    base = {1: PRELUDE, 2: CALLS}
    for L in range(1, n + 1):
        for first in range(K):
            if L >= 4:
                for second in range(K):
                    cases.append({'id': 'len%d-first%d-%d' % (L, first, second), 'label': 'all bodies of %d tokens starting with kinds %d %d' % (L, first, second), 'cfg': {**{0: ' '.join([str(first), str(second)] + ['s'] * (L - 2))}, **base}})
                continue
            cases.append({'id': 'len%d-first%d' % (L, first), 'label': 'all bodies of %d tokens starting with kind %d' % (L, first), 'cfg': {**{0: ' '.join([str(first)] + ['s'] * (L - 1))}, **base}})
    LP, RP, MINUS, UEXP, IF, THEN, ELSE = str(c10.LP), str(c10.RP), str(c10.MINUS), str(c10.UEXP), str(c10.IF), str(c10.THEN), str(c10.ELSE)
    T = [[x, 'o', x, 'o', x], [x, 'o', n2, 'o', x], [LP, x, 'o', x, RP, 'o', x], [x, 'o', LP, x, 'o', n2, RP], [MINUS, x, 'o', x], [x, 'o', x, UEXP], [x, UEXP, 'o', x],
         [IF, x, 'o', x, THEN, x, ELSE, x], [IF, x, 'o', n2, THEN, x, 'o', x, ELSE, x, 'o', x], [x, 'o', x, 'o', n2], [LP, x, 'o', x, RP, UEXP, 'o', x]]
    if tier == 'quick':
        T = [T[0], T[2], T[3], T[5], T[6], T[7], T[10]]
    # bodies whose types are pure inverses of products: 2 o ( a o b ), 2 o a o b
    T += [[n2, 'o', LP, x, 'o', x, RP], [n2, 'o', x, 'o', x]]
    if tier == 'thorough':
        T += [[x, 'o', x, 'o', x, 'o', x], [LP, x, 'o', x, RP, 'o', LP, x, 'o', x, RP], [IF, x, 'o', x, THEN, x, 'o', n2, ELSE, x, 'o', x, 'o', n2]]
    OPK = [4, 5, 6, 7, 8, 9, 10, 11, 12, 13, 14, 15, 16, 17, 18, 19, 20, 21, 22, 23, 24, 25, 27]
    for i, t in enumerate(T):
        j = t.index('o')
        for opk in OPK:
            tt = list(t); tt[j] = str(opk)
            cases.append({'id': 'tmpl%d-op%d' % (i, opk), 'label': 'template %s' % ' '.join(tt), 'cfg': {**{0: ' '.join(tt)}, **base}})
    return [{'entry': 'h_c16_infer', 'cases': cases, 'opts': {'mode': 'replay', 'max_paths': 200000, 'instr_budget': 600_000_000},
             'expect_covers': ['c16-body-outside-grammar', 'c16-definition-accepted', 'c16-annotated-version-accepted', 'c16-some-call-accepted'], 'selftest_inputs': c10._inputs}]

def classify(v, case):
    """known finding (keyed by role): == / != on operands whose function type is only inferred"""
    if v.get('tag') != 'inferred-signature-is-accepted-as-annotation': return None
    obs = {}
    for o in (v.get('rec') or {}).get('obs', []):
        try: obs[o[0]] = bytes.fromhex(o[2]).decode()
        except Exception: pass
    sig = obs.get('c16-inferred', '')
    if 'Fn[' in sig and ('==' in sig or '≠' in sig): return 'inferred-equality-on-function-types'
    return None
