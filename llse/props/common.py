"""catalog helpers shared by the property plans"""
import json

METRIC = [-30, -27, -24, -21, -18, -15, -12, -9, -6, -3, -2, -1, 1, 2, 3, 6, 9, 12, 15, 18, 21, 24, 27, 30]
BINARY = [10, 20, 30, 40, 50, 60, 70, 80]

def dimkey(u):
    return json.dumps(sorted(u['dim']))

def by_dimension(units):
    g = {}
    for u in units: g.setdefault(dimkey(u), []).append(u)
    return g

def with_prefix(spec, kind, exp):
    """apply a prefix to the (single) top-level factor of a unit spec"""
    t = spec.split(' ')
    # ( [ name canonical short long PK PE en ed ...
    assert t[0] == '(' and t[1] == '['
    t[6] = kind; t[7] = str(exp)
    return ' '.join(t)

def prefixed_variants(u):
    out = []
    if u['metric']:
        out += [('M', e) for e in METRIC]
    if u['binary']:
        out += [('I', e) for e in BINARY]
    return out

def label(u, p=None):
    if p is None: return u['name']
    return '%s%s%d*%s' % ('10^' if p[0] == 'M' else '2^', '', p[1], u['name'])

def factor(u):
    import struct
    return struct.unpack('<d', struct.pack('<Q', int(u['factor_bits'], 16)))[0]

def is_pow2_ratio(f1, f2):
    import math
    if f1 == 0 or f2 == 0: return False
    r = f1 / f2
    m, e = math.frexp(r)
    return m == 0.5 and (f2 * r == f1)

def exact_size(spec, prefix=None):
    """exact conversion factor to base units as a Fraction, computed from the definition tree alone
    (independent of numbat's own factor arithmetic); None if a non-integer exponent occurs"""
    from fractions import Fraction
    import struct
    from . import progdefs
    def fbits(b): return Fraction(struct.unpack('<d', struct.pack('<Q', b))[0])
    def unit(fs):
        r = Fraction(1)
        for f in fs:
            if f['ed'] != 1: return None
            base = Fraction(10 if f['pk'] == 'M' else 2) ** f['pe']
            if not f['base']:
                d = unit(f['def'])
                if d is None: return None
                base *= fbits(f['factor_bits']) * d
            r *= base ** f['en']
        return r
    fs = progdefs.parse_spec(spec if prefix is None else with_prefix(spec, *prefix))
    return unit(fs)

ATOMS = ['2212', '2192', '279E', '00D7', '00F7', '00B7', '22C5', '00B2', '207B', '2264', '2265', '2260', '2A75', '2026']
ALPHA = '()[]<>=?&|*+/^,@-!:.; \n\t0123456789"#'

def tokenizer_job(tier):
    pats = ['a', 'a a']
    for u in ATOMS:
        pats += ['U+%s a' % u, 'a U+%s' % u]
    if tier == 'thorough':
        pats += ['U+%04X a a' % ord(c) for c in ALPHA]
        for u in ATOMS: pats += ['U+%s a a' % u, 'a U+%s a' % u, 'a a U+%s' % u]
    cases = [{'id': 'tok%d' % i, 'label': 'text pattern ' + p, 'cfg': {0: p}} for i, p in enumerate(pats)]
    def inputs(rnd, case):
        return {'u%d' % i: ord(rnd.choice(ALPHA)) for i in range(4)}
    return {'entry': 'h_c08_tokenizer', 'cases': cases, 'opts': {'mode': 'replay', 'max_paths': 400000, 'instr_budget': 50_000_000},
            'expect_covers': ['c08-tokenizer-returned', 'c08-tokenizer-reference-agrees-on-accept'], 'selftest_inputs': inputs}
