"""C02 (partial) — static checking accepts exactly the dimensionally consistent programs: expressions with symbolic token kinds against a reference dimensional analysis, and the constraint solver."""
LEVEL = 'model_checking'
LIMITS = {'max_unsupported': 0, 'max_undecided_frac': 0.05}
OUTSIDE = ['accept / reject of programs other than one expression statement over the session\'s names (a, c: Length; b: Time; k: Scalar; f: Length -> Time; the units meter, second) within the stated token bounds and templates; definitions, annotations, generic functions, structs; the polymorphic literals 0 / inf / NaN, typed holes, calls of non-functions, exponents that are not constant expressions over + - * / (reported as outside the reference, not asserted)',
           'systems with more than two type variables / two equations / two base dimensions; exponents outside [-3, 3]; non-integer exponents in the input system (the solver itself produces rational exponents, which are exercised)']
ASSUMPTIONS = ['accept kernel: token kinds are symbolic over the 37-kind expression alphabet; the real parser prunes what the grammar rejects; the reference (harness/src/h_accept.rs) is ordinary dimensional analysis on exponent vectors over (Length, Time) with exact rationals, applied to the real syntax tree (whose shape C10 decides); the dimensions of the names are the ones DECLARED in the session prelude; the reference was compared natively with the unchanged tree on all 52 059 sequences of up to 3 tokens of one family during development (a development aid, not part of the verdict)',
               'engine: operands of symbolic divisions of 64 bits or more are case-split over their feasible values (enumerated by the solver, at most 16; otherwise kept symbolic); a case that exceeds its wall-clock budget is reported as path-budget hit (exit 2 if it happens beyond the stated fraction), never as held',
               'equations are built with DType::from_factors over the type variables T0, T1 and the base dimensions Length, Mass; exponents are symbolic integers in [-3, 3]',
               'oracle: consistency of the linear system over the rationals, decided by integer arithmetic on the exponents (determinant / minors)']

def bounds(tier):
    return {'accept_kernel': 'every token sequence of 1..%d tokens accepted by the real parser (first token fixed per case, the rest symbolic; name family F1, and F2 one token shorter in the quick tier) plus templates with one operator position symbolic over the 23 operators (x o x o x, ( x o x ) o x, x o x ², if x o x then x else x, x ^ ( 2 o 2 ), [ x , x o x ], f ( x o x ), x o x |> f, …): accepted iff the reference finds it consistent, reported type = reference type, a rejected input prints nothing and defines nothing' % (3 if tier == 'quick' else 4),
            'shapes': 'one equation T0^a L^b ~ L^c M^d (all 7^4 exponent tuples); two equations T0^a T1^b ~ L^p, T0^c T1^d ~ L^q M^r with p, q, r symbolic in [-3, 3] and (a, b, c, d) pinned per case: quick = 10 fixed + 6 seeded tuples with |ad-bc| <= 1 + 2 seeded with |ad-bc| > 1; thorough = every tuple with |ad-bc| <= 1 and 60 seeded others'}

def exhaustive(tier): return False

def _inputs(rnd, case):
    if 3 in case['cfg']: return {'u%d' % i: rnd.randrange(0, 23) for i in range(12)}
    c = {'u%d' % i: rnd.randrange(0, 7) for i in range(7)}
    for item in case['cfg'].get(1, '').split(','):
        if ':' in item:
            i, v = item.split(':'); c['u%s' % i.strip()] = int(v)
    return c

def plan(tier, rnd, units):
    cases = []
    for a in range(7):
        for b in range(7):
            cases.append({'id': 'one-a%d-b%d' % (a, b), 'label': 'T0^%d L^%d ~ L^c M^d' % (a - 3, b - 3), 'cfg': {0: 'one', 1: '0:%d,1:%d' % (a, b)}})
    def det(q):
        a, b, c, d = (x - 3 for x in q)
        return a * d - b * c
    allq = [(a, b, c, d) for a in range(7) for b in range(7) for c in range(7) for d in range(7)]
    cheap = [q for q in allq if abs(det(q)) <= 1]
    heavy = [q for q in allq if abs(det(q)) > 1]
    if tier == 'quick':
        quads = [(4, 3, 3, 4), (4, 4, 3, 4), (4, 3, 4, 4), (3, 4, 4, 3), (2, 2, 2, 2), (3, 3, 3, 3), (4, 2, 3, 4), (4, 4, 2, 2), (5, 1, 2, 6), (6, 0, 3, 4)]
        quads += rnd.sample(cheap, 6) + rnd.sample(heavy, 2)
    else:
        quads = cheap + rnd.sample(heavy, 60)
    for q in quads:
        a, b, c, d = q
        cases.append({'id': 'two-a%d-b%d-c%d-d%d' % q, 'label': 'T0^%d T1^%d ~ L^p ; T0^%d T1^%d ~ L^q M^r (det %d)' % (a - 3, b - 3, c - 3, d - 3, det(q)), 'cfg': {0: 'two', 1: '0:%d,1:%d,2:%d,3:%d' % q}})
    from . import accept
    fams = ['F1'] if tier == 'quick' else ['F1', 'F2', 'F3', 'F4']
    seqs = ['S1'] if tier == 'quick' else ['S1', 'S2', 'S3', 'S4', 'S5']
    accept_job = accept.job(tier, 'c02', fams, seqs, 3 if tier == 'quick' else 4, short_fams=['F2'] if tier == 'quick' else [])
    return [accept_job, {'entry': 'h_c02_solve', 'cases': cases, 'opts': {'mode': 'replay', 'max_paths': 200000, 'instr_budget': 100_000_000, 'query_timeout_ms': 3000, 'hard_timeout': True, 'case_wall_s': 400 if tier == 'quick' else 1800, 'split_wide_div': 64}, 'bounded_exploration': True,
             'expect_covers': ['c02-solver-returned', 'c02-solved', 'c02-rejected'], 'selftest_inputs': _inputs}]

def classify(v, case): return None
