"""C02 (partial) — static checking accepts exactly the dimensionally consistent programs: the constraint solver."""
LEVEL = 'model_checking'
LIMITS = {'max_unsupported': 0, 'max_undecided_frac': 0.02}
OUTSIDE = ['accept / reject of whole programs, constraint *generation* per operator, the registry\'s base representations, "a rejected input prints nothing and defines nothing" — program structure has no symbolic value (symbolic source text cannot pass the keyword hash map / float parsing)',
           'systems with more than two type variables / two equations / two base dimensions; exponents outside [-3, 3]; non-integer exponents in the input system (the solver itself produces rational exponents, which are exercised)']
ASSUMPTIONS = ['equations are built with DType::from_factors over the type variables T0, T1 and the base dimensions Length, Mass; exponents are symbolic integers in [-3, 3]',
               'oracle: consistency of the linear system over the rationals, decided by integer arithmetic on the exponents (determinant / minors)']

def bounds(tier):
    return {'shapes': 'one equation T0^a L^b ~ L^c M^d (all 7^4 exponent tuples); two equations T0^a T1^b ~ L^p, T0^c T1^d ~ L^q M^r (quick: a, b, c pinned to 9 seeded triples, d, p, q, r symbolic; thorough: all a, b pinned, rest symbolic)'}

def exhaustive(tier): return False

def _inputs(rnd, case):
    c = {'u%d' % i: rnd.randrange(0, 7) for i in range(7)}
    for item in case['cfg'].get(1, '').split(','):
        if ':' in item:
            i, v = item.split(':'); c['u%s' % i.strip()] = int(v)
    return c

def plan(tier, rnd, units):
    cases = []
    for a in range(7):
        for b in range(7):
            cases.append({'id': 'one-a%d-b%d' % (a, b), 'label': 'T0^%d L^%d ~ L^c M^d' % (a - 3, b - 3), 'cfg': {0: 'one', 1: '0:%d,1:%d' % (a, b)}})
    if tier == 'quick':
        triples = [(4, 3, 3), (3, 4, 5), (5, 1, 2), (2, 2, 2), (3, 3, 3), (6, 0, 4)] + [(rnd.randrange(7), rnd.randrange(7), rnd.randrange(7)) for _ in range(3)]
        for a, b, c in triples:
            cases.append({'id': 'two-a%d-b%d-c%d' % (a, b, c), 'label': 'T0^%d T1^%d ~ L^p ; T0^%d T1^d ~ L^q M^r' % (a - 3, b - 3, c - 3), 'cfg': {0: 'two', 1: '0:%d,1:%d,2:%d' % (a, b, c)}})
    else:
        for a in range(7):
            for b in range(7):
                for c in range(7):
                    cases.append({'id': 'two-a%d-b%d-c%d' % (a, b, c), 'label': 'T0^%d T1^%d ~ L^p ; T0^%d T1^d ~ L^q M^r' % (a - 3, b - 3, c - 3), 'cfg': {0: 'two', 1: '0:%d,1:%d,2:%d' % (a, b, c)}})
    return [{'entry': 'h_c02_solve', 'cases': cases, 'opts': {'mode': 'replay', 'max_paths': 200000, 'instr_budget': 100_000_000, 'query_timeout_ms': 10000},
             'expect_covers': ['c02-solver-returned', 'c02-solved', 'c02-rejected'], 'selftest_inputs': _inputs}]

def classify(v, case): return None
