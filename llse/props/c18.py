"""C18 — lists behave as immutable values despite internal sharing."""
LEVEL = 'model_checking'
LIMITS = {'max_unsupported': 0, 'max_undecided_frac': 0.02}
OUTSIDE = ['allocations longer than the stated bound (the operations are index arithmetic on (start, end) and VecDeque calls; nothing in them depends on the length beyond being empty / non-empty / start == 0 / end == len)',
           'element types other than u64 (the list is generic; only Clone / PartialEq of the element are used)',
           'the ffi wrappers in ffi/lists.rs (head/tail/cons/cons_end call exactly these operations on an owned copy)']
ASSUMPTIONS = ['inductive step: pre-states range over every representation state with view = None or (s, e), s <= e == alloc.len(), for allocation lengths up to the bound, ring buffer rotated or not, the operated handle being the sole owner or sharing the allocation with a second handle (with or without its own view); the harness proves that every operation re-establishes this invariant, and the history harness shows every state reached from new() within its depth satisfies it',
               'element values and the operation are symbolic (all u64 values; 9 operations)']

def bounds(tier):
    n = 3 if tier == 'quick' else 5
    k = 3 if tier == 'quick' else 4
    return {'step': 'allocation length 0..%d, every view start, rotation 0/1, sole owner / shared (no view) / shared (every view start); one of 9 operations' % n,
            'histories': 'every sequence of %d operations out of 18 (push_front/push_back/tail/head on 3 slots, copy between ordered slot pairs) from new()' % k}

def exhaustive(tier): return True

def _inputs(rnd, case):
    conc = {'u%d' % i: rnd.randrange(0, 5) for i in range(8)}
    conc['u30'] = rnd.randrange(0, 9); conc['u31'] = rnd.randrange(0, 5)
    for i in range(6):
        conc['u%d' % (40 + i)] = rnd.choice([0, 3, 6, 12, 13, 1, 9]); conc['u%d' % (50 + i)] = rnd.randrange(0, 5)
    if 1 in case['cfg'] and case.get('hist'): conc['u40'] = int(case['cfg'][1])
    return conc

def plan(tier, rnd, units):
    n_max = 3 if tier == 'quick' else 5
    k = 3 if tier == 'quick' else 4
    step = []
    for n in range(0, n_max + 1):
        for rot in ((0, 1) if n >= 2 else (0,)):
            for v1 in ['-'] + [str(s) for s in range(0, n + 1)]:
                for other in ['-', 'n'] + [str(t) for t in range(0, n + 1)]:
                    step.append({'id': 'n%d-r%d-v%s-o%s' % (n, rot, v1, other), 'label': 'alloc len %d rot %d, h1 view %s, other handle %s' % (n, rot, v1, other),
                                 'cfg': {0: str(n), 1: str(rot), 2: v1, 3: other}})
    firsts = (0, 3, 6, 9, 12, 13)
    if tier == 'quick':
        hist = [{'id': 'k%d-first%d' % (k, f), 'label': '%d operations, first = %d' % (k, f), 'cfg': {0: str(k), 1: str(f)}, 'hist': True} for f in firsts]
    else:
        hist = [{'id': 'k%d-first%d-second%d' % (k, f, g), 'label': '%d operations, first = %d, second = %d' % (k, f, g), 'cfg': {0: str(k), 1: str(f), 2: str(g)}, 'hist': True} for f in firsts for g in range(18)]
    covers = ['c18-step-' + x for x in ('push-front', 'push-back', 'tail', 'head', 'len', 'is-empty', 'copy', 'eq', 'iter')]
    return [
        {'entry': 'h_c18_step', 'cases': step, 'opts': {'mode': 'replay', 'max_paths': 5000}, 'expect_covers': covers, 'selftest_inputs': _inputs},
        {'entry': 'h_c18_hist', 'cases': hist, 'opts': {'mode': 'replay', 'max_paths': 400000}, 'expect_covers': ['c18-hist-completed'], 'selftest_inputs': _inputs},
    ]

def classify(v, case): return None
