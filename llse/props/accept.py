"""Shared plan of the structural accept/reject kernel h_c02_accept (used by C02 in static mode and by C01 in run-time mode)."""
from . import c10

PRELUDE = ('dimension Scalar = 1\ndimension Length\ndimension Time\nunit meter: Length\nunit second: Time\n'
           'let a = 2 meter\nlet b = 3 second\nlet c = 5 meter\nlet k = 7\n'
           'fn f(x: Length) -> Time = x / (1 meter) * 1 second\n')
# what the reference knows about the names: the dimensions DECLARED in the prelude above (L = Length, T = Time)
KNOWN = 'a=L b=T c=L k=1 f=fn:L:T meter=L second=T'
# spelling of an Identifier token by position (cycled) for the all-sequences cases
FAMILIES = {'F1': 'a b c k', 'F2': 'a c f b', 'F3': 'f a meter second', 'F4': 'b k a f'}
# identifier sequences for the templates (i-th Identifier token of the template)
SEQS = {'S1': ['a', 'c', 'b', 'k'], 'S2': ['a', 'b', 'c', 'a'], 'S3': ['meter', 'a', 'second', 'c'], 'S4': ['k', 'a', 'c', 'b'], 'S5': ['b', 'b', 'a', 'k']}
OPK = [4, 5, 6, 7, 8, 9, 10, 11, 12, 13, 14, 15, 16, 17, 18, 19, 20, 21, 22, 23, 24, 25, 27]

def _inputs(rnd, case):
    return {'u%d' % i: rnd.randrange(0, 23) for i in range(12)}

def templates(tier):
    x = str(c10.ID); n2 = str(c10.NUM)
    LP, RP, MINUS, UEXP, IF, THEN, ELSE, POW, LB, RB, COMMA, PIPE = (str(v) for v in (c10.LP, c10.RP, c10.MINUS, c10.UEXP, c10.IF, c10.THEN, c10.ELSE, c10.POW, 31, 32, 26, c10.PIPE))
    T = [[x, 'o', x, 'o', x], [x, 'o', n2, 'o', x], [LP, x, 'o', x, RP, 'o', x], [x, 'o', LP, x, 'o', n2, RP], [MINUS, x, 'o', x], [x, 'o', x, UEXP],
         [IF, x, 'o', x, THEN, x, ELSE, x], [x, POW, LP, n2, 'o', n2, RP], [x, POW, MINUS, n2, 'o', x], [LB, x, COMMA, x, 'o', x, RB],
         ['F', LP, x, 'o', x, RP], [x, 'o', x, PIPE, 'F'], [x, 'o', 'F', LP, x, RP]]
    if tier == 'quick':
        T = [T[0], T[2], T[5], T[6], T[7], T[9], T[10], T[11]]
    if tier == 'thorough':
        T += [[x, UEXP, 'o', x], [IF, x, 'o', n2, THEN, x, 'o', x, ELSE, x, 'o', x], [x, 'o', x, 'o', x, 'o', x], [LP, x, 'o', x, RP, POW, n2, 'o', x], [x, POW, LP, n2, 'o', n2, RP, 'o', x],
              [LB, x, 'o', x, COMMA, x, 'o', x, RB], ['F', LP, x, RP, 'o', x, 'o', x], [x, 'o', x, POW, n2, 'o', x]]
    return T

def job(tier, mode, fams, seqs, maxlen, short_fams=()):
    """fams: families with all sequences up to maxlen; short_fams: families with all sequences up to maxlen - 1"""
    base = {1: PRELUDE, 3: KNOWN, 4: mode}
    K = c10.K
    cases = []
    for fam in list(fams) + list(short_fams):
        for L in range(1, (maxlen if fam in fams else maxlen - 1) + 1):
            for first in range(K):
                if L >= 4:
                    for second in range(K):
                        cases.append({'id': '%s-len%d-first%d-%d' % (fam, L, first, second), 'label': 'names %s: all expressions of %d tokens starting with kinds %d %d' % (FAMILIES[fam], L, first, second),
                                      'cfg': {**base, 0: ' '.join([str(first), str(second)] + ['s'] * (L - 2)), 2: FAMILIES[fam]}})
                    continue
                cases.append({'id': '%s-len%d-first%d' % (fam, L, first), 'label': 'names %s: all expressions of %d tokens starting with kind %d' % (FAMILIES[fam], L, first),
                              'cfg': {**base, 0: ' '.join([str(first)] + ['s'] * (L - 1)), 2: FAMILIES[fam]}})
    x = str(c10.ID)
    for sname in seqs:
        seq = SEQS[sname]
        for ti, t in enumerate(templates(tier)):
            names = []; n = 0; tt = []
            for tok in t:
                if tok == 'F':
                    names.append('f'); tt.append(x)
                elif tok == x:
                    names.append(seq[n % len(seq)]); n += 1; tt.append(x)
                else:
                    names.append('a'); tt.append(tok)
            j = tt.index('o')
            for opk in OPK:
                t2 = list(tt); t2[j] = str(opk)
                # the remaining 'o' positions (templates with two operator holes) stay symbolic over the operators
                cases.append({'id': '%s-tmpl%d-op%d' % (sname, ti, opk), 'label': 'template %s with names %s' % (' '.join(t2), ' '.join(names)),
                              'cfg': {**base, 0: ' '.join(t2), 2: ' '.join(names)}})
    covers = ['c02-outside-grammar', 'c02-accepted', 'c02-rejected-by-the-checker']
    covers += ['c01-typed-value'] if mode == 'c01' else ['c02-accepted-as-expected', 'c02-outside-reference']
    return {'entry': 'h_c02_accept', 'cases': cases, 'opts': {'mode': 'replay', 'max_paths': 200000, 'instr_budget': 600_000_000},
            'expect_covers': covers, 'selftest_inputs': _inputs}
