"""C01 — accepted programs never go wrong dimensionally at run time."""
from . import progdefs

LEVEL = 'model_checking'
LIMITS = {'max_unsupported': 0, 'max_undecided_frac': 0.3}
OUTSIDE = ['programs that are neither instances of the listed templates nor one expression statement within the token bounds of the structural kernel (h_c02_accept in run-time mode: every accepted expression of up to 3 tokens (thorough: 4) over the names f, a, meter, second plus operator templates; the value must carry the dimension the checker reported for it, and run-time errors must be documented value-dependent ones)',
           'exponents that are computed doubles: Rational::from_f64 on a symbolic double is not executable symbolically, so the defect named in the property text — (m^2)^(0.1+0.2) has static type Length^(3/5) but a different run-time exponent — is NOT found by this check',
           'polymorphism decided by the *text* of a literal (0, inf, NaN, and whatever else the checker treats as polymorphic): literals are fixed per template, only magnitudes injected through __verif_sym are symbolic']
ASSUMPTIONS = ['every magnitude is a symbolic double (all bit patterns); units metre, second, gram with prefixes, inch, foot, hour defined from the catalog',
               'the expected dimension of each template is written next to it (ordinary dimensional analysis)']

UNITS = ['metre', 'second', 'gram', 'inch', 'foot', 'hour', 'minute']
H = '__verif_sym(%d)'
def S(t):
    for i in range(3): t = t.replace('S%d' % i, H % i)
    return t

L = 'metre:1/1'; T = 'second:1/1'; V = 'metre:1/1,second:-1/1'; A2 = 'metre:2/1'
TEMPLATES = [
    ('add-mixed-units', 'S0 metre + S1 kilometre', L, 'none'),
    ('sub-mixed-units', 'S0 foot - S1 inch', L, 'none'),
    ('sub-polymorphic-zero-right', 'S0 kilometre - 0', L, 'none'),
    ('sub-polymorphic-zero-left', '0 - S0 hour', T, 'none'),
    ('add-polymorphic-zero', '0 + S0 kilometre + 0', L, 'none'),
    ('compare-with-zero', 'S0 kilometre > 0', 'bool', 'none'),
    ('compare-zero-left', '0 <= S0 metre', 'bool', 'none'),
    ('compare-mixed', 'S0 inch < S1 foot', 'bool', 'none'),
    ('equal-with-zero', 'S0 hour == 0', 'bool', 'none'),
    ('conditional-on-sign', 'if S0 kilometre > 0 then S0 kilometre else 0', L, 'none'),
    ('generic-abs', 'fn myabs<D: Dim>(x: D) -> D = if x >= 0 then x else -x\nmyabs(S0 kilometre)', L, 'none'),
    ('generic-max-zero', 'fn pos<D: Dim>(x: D) -> D = if x > 0 then x else 0\npos(S0 hour) + S1 minute', T, 'none'),
    ('product-and-quotient', '(S0 kilometre * S1 metre) / (S2 hour)', 'metre:2/1,second:-1/1', 'div0'),
    ('division', 'S0 metre / (S1 second)', V, 'div0'),
    ('power-literal', 'S0 * kilometre^2 + S1 * metre^2', A2, 'none'),
    ('sqrt-style-power', 'S0 * (metre^2)^(1/2) + S1 inch', L, 'none'),
    ('conversion', '(S0 inch + S1 foot) -> centimetre', L, 'none'),
    ('where-clause', 'fn speed(d: D_metre, t: D_second) = v where v = d / t\nspeed(S0 kilometre, S1 hour) + S2 metre / second', V, 'div0'),
    ('struct-field', 'struct Trip { d: D_metre, t: D_second }\nlet trip = Trip { t: S1 hour, d: S0 kilometre }\ntrip.d / trip.t + 0', V, 'div0'),
    ('redefined-global-read-in-function', 'let v = S0 metre\nlet v = S1 second\nfn getv() = v\ngetv() + S2 hour', T, 'none'),
    ('scalar-over-generic-result', 'fn inv(x) = 1 / x\nfn idy<D: Dim>(x: D) -> D = x\ninv(S0 second) + S1 / idy(S2 hour)', 'second:-1/1', 'div0'),
    ('polymorphic-inf', 'inf + S0 metre', L, 'none'),
    ('polymorphic-nan', 'S0 metre + NaN', L, 'none'),
]

def bounds(tier):
    return {'templates': len(TEMPLATES), 'symbolic_inputs': 'up to 3 magnitudes per template, all doubles'}

def exhaustive(tier): return False

def plan(tier, rnd, units):
    byname = {u['name']: u for u in units}
    prelude = progdefs.PRELUDE_HEAD + progdefs.definitions([byname[n]['spec'] for n in UNITS], byname)
    cases = [{'id': tid, 'label': text.replace('\n', ' ; '), 'cfg': {0: prelude, 1: S(text), 2: dim, 3: allowed}} for tid, text, dim, allowed in TEMPLATES]
    to = 20000 if tier == 'quick' else 60000
    from . import accept
    accept_job = accept.job(tier, 'c01', ['F3'] if tier == 'quick' else ['F3', 'F4', 'F1'], ['S2'] if tier == 'quick' else ['S1', 'S2', 'S3', 'S4', 'S5'], 3 if tier == 'quick' else 4)
    NEW = ('redefined-global-read-in-function', 'scalar-over-generic-result')
    if tier == 'quick':
        # the structural kernel in run-time mode and the two newest templates were added at the end of the session and have
        # not been exercised on the unchanged tree yet: thorough tier only until they have been (next session)
        cases = [c for c in cases if c['id'] not in NEW]
    jobs = [accept_job] if tier == 'thorough' else []
    return jobs + [{'entry': 'h_c01_sound', 'cases': cases, 'opts': {'query_timeout_ms': to, 'max_paths': 400, 'mode': 'fork', 'per_case_setup': True, 'instr_budget': 600_000_000},
             'expect_covers': ['c01-program-ran', 'c01-quantity-result']}]

def classify(v, case):
    if v.get('entry') == 'h_c02_accept':
        # keyed by role: an expression that contains one of the polymorphic literals inf / NaN
        txt = ''
        for o in (v.get('rec') or {}).get('obs', []):
            if o[0] == 'c02-input':
                try: txt = bytes.fromhex(o[2]).decode()
                except Exception: pass
        if ('inf' in txt.split() or 'NaN' in txt.split()) and v['tag'] in ('no-unit-incompatibility-at-run-time', 'run-time-dimension-equals-static-type'):
            return 'polymorphic-inf-nan-literal'
        return None
    if case.get('id') in ('polymorphic-inf', 'polymorphic-nan') and v['tag'] in ('no-unit-incompatibility-at-run-time', 'run-time-dimension-equals-static-type'):
        return 'polymorphic-inf-nan-literal'
    return None
