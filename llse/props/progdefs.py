"""Numbat source for a minimal session that defines exactly the units a case needs, generated from the
catalog's definition trees (the harness checks, concretely and before any symbolic step, that the unit the
session ends up with is structurally equal to the catalog's unit)."""
import struct

LONG = {('M', -30): 'quecto', ('M', -27): 'ronto', ('M', -24): 'yocto', ('M', -21): 'zepto', ('M', -18): 'atto', ('M', -15): 'femto',
        ('M', -12): 'pico', ('M', -9): 'nano', ('M', -6): 'micro', ('M', -3): 'milli', ('M', -2): 'centi', ('M', -1): 'deci',
        ('M', 1): 'deca', ('M', 2): 'hecto', ('M', 3): 'kilo', ('M', 6): 'mega', ('M', 9): 'giga', ('M', 12): 'tera', ('M', 15): 'peta',
        ('M', 18): 'exa', ('M', 21): 'zetta', ('M', 24): 'yotta', ('M', 27): 'ronna', ('M', 30): 'quetta',
        ('I', 10): 'kibi', ('I', 20): 'mebi', ('I', 30): 'gibi', ('I', 40): 'tebi', ('I', 50): 'pebi', ('I', 60): 'exbi', ('I', 70): 'zebi', ('I', 80): 'yobi'}

def parse_spec(spec):
    toks = spec.split()
    pos = [0]
    def unit():
        assert toks[pos[0]] == '('; pos[0] += 1
        fs = []
        while toks[pos[0]] != ')':
            assert toks[pos[0]] == '['; pos[0] += 1
            f = {'name': toks[pos[0]], 'canon': toks[pos[0] + 1], 'short': toks[pos[0] + 2] == '1', 'long': toks[pos[0] + 3] == '1',
                 'pk': toks[pos[0] + 4], 'pe': int(toks[pos[0] + 5]), 'en': int(toks[pos[0] + 6]), 'ed': int(toks[pos[0] + 7])}
            pos[0] += 8
            if toks[pos[0]] == 'B':
                f['base'] = True; pos[0] += 1
            else:
                assert toks[pos[0]] == 'D'
                f['base'] = False; f['factor_bits'] = int(toks[pos[0] + 1], 16); pos[0] += 2
                f['def'] = unit()
            assert toks[pos[0]] == ']'; pos[0] += 1
            fs.append(f)
        pos[0] += 1
        return fs
    return unit()

def unit_expr(factors):
    """numbat source text of a unit (product of prefixed, exponentiated unit names)"""
    parts = []
    for f in factors:
        nm = f['name']
        if f['pe'] != 0: nm = LONG[(f['pk'], f['pe'])] + nm
        if f['ed'] != 1: nm = '%s^(%d/%d)' % (nm, f['en'], f['ed'])
        elif f['en'] != 1: nm = '%s^(%d)' % (nm, f['en'])
        parts.append(nm)
    return ' * '.join(parts) if parts else '1'

def f64_lit(bits):
    x = struct.unpack('<d', struct.pack('<Q', bits))[0]
    return repr(x)

def definitions(specs, catalog_by_name):
    """source text defining every unit that occurs in the given specs (dependencies first)"""
    out = []; done = set()
    def visit(f):
        if f['name'] in done: return
        if not f['base']:
            for g in f['def']: visit(g)
        done.add(f['name'])
        decos = []
        cat = catalog_by_name.get(f['name'], {})
        if cat.get('metric', True): decos.append('@metric_prefixes')
        if cat.get('binary', False): decos.append('@binary_prefixes')
        if f['canon'] != f['name'] or f['short']:
            ap = 'both' if (f['short'] and f['long']) else ('short' if f['short'] else ('long' if f['long'] else 'none'))
            decos.append('@aliases(%s: %s)' % (f['canon'], ap))
        if f['base']:
            out.append('dimension D_%s' % f['name'])
            out.extend(decos)
            out.append('unit %s: D_%s' % (f['name'], f['name']))
        else:
            out.extend(decos)
            rhs = unit_expr(f['def'])
            out.append('unit %s = %s * (%s)' % (f['name'], f64_lit(f['factor_bits']), rhs) if f['def'] else 'unit %s = %s' % (f['name'], f64_lit(f['factor_bits'])))
    for sp in specs:
        for f in parse_spec(sp): visit(f)
    return '\n'.join(out)

PRELUDE_HEAD = 'dimension Scalar = 1\nfn __verif_sym(i: Scalar) -> Scalar\n'
