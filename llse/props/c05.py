"""C05 — automatic unit simplification never changes the quantity."""
from . import common, progdefs

LEVEL = 'model_checking'
LIMITS = {'max_unsupported': 0, 'max_undecided_frac': 0.3}
OUTSIDE = ['magnitude preservation for general mantissas (a floating-point tolerance claim; not decidable by bit-blasting in budget): decided are the dimension, the value class for all doubles, structural back-convertibility, and the magnitude of 1·E',
           'unit combinations not in the case list; the rendered text of print / string interpolation (float formatting is not symbolically executable) — the result path of Context::interpret is what is executed',
           'sessions with the full prelude: each case runs in a session that defines the units of the case plus a fixed set of candidate derived units (joule, watt, newton, pascal, rydberg, electronvolt, barn, …) from their catalog definitions']
ASSUMPTIONS = ['a ranges over all f64 bit patterns; unit structure is concrete per case',
               'session units are generated from the catalog definition trees and checked (concretely) to equal the standard-library units']

CANDIDATES = ['joule', 'watt', 'newton', 'pascal', 'rydberg', 'electronvolt', 'barn', 'hertz', 'litre', 'hectare', 'coulomb', 'volt', 'ohm', 'percent']

def bounds(tier):
    return {'cases': len(CASES), 'symbolic_inputs': 'a: all doubles'}

def exhaustive(tier): return False

# (id, [(unit, prefix, exponent)], explicit target [(unit, prefix, exponent)] or None)
CASES = [
    ('N-m', [('newton', None, 1), ('metre', None, 1)], None),
    ('J-per-s', [('joule', None, 1), ('second', None, -1)], [('watt', ('M', -3), 1)]),
    ('nN-nm', [('newton', ('M', -9), 1), ('metre', ('M', -9), 1)], None),
    ('pN-pm', [('newton', ('M', -12), 1), ('metre', ('M', -12), 1)], [('joule', None, 1)]),
    ('m2-to-N-per-Pa', [('metre', None, 2)], [('newton', None, 1), ('pascal', None, -1)]),
    ('J-to-N-m', [('joule', None, 1)], [('newton', None, 1), ('metre', None, 1)]),
    ('C-per-A', [('coulomb', None, 1), ('ampere', None, -1)], [('coulomb', None, 1), ('ampere', None, -1)]),
    ('kmh-h', [('metre', ('M', 3), 1), ('hour', None, -1), ('hour', None, 1)], None),
    ('percent-kg', [('percent', None, 1), ('gram', ('M', 3), 1)], None),
    ('Hz-s', [('hertz', None, 1), ('second', None, 1)], None),
    ('m-per-cm', [('metre', None, 1), ('metre', ('M', -2), -1)], None),
    ('m-m2', [('metre', None, 1), ('metre', None, 2)], [('litre', None, 1)]),
    ('V-A', [('volt', None, 1), ('ampere', None, 1)], None),
    ('mm-km', [('metre', ('M', -3), 1), ('metre', ('M', 3), 1)], [('hectare', None, 1)]),
    # one base unit with three different prefixes (partially cancelling), next to another unit
    ('cm-per-m-km-N', [('metre', ('M', -2), 1), ('metre', None, -1), ('metre', ('M', 3), 1), ('newton', None, 1)], None),
    ('ms-per-s-us', [('second', ('M', -3), 1), ('second', None, -1), ('second', ('M', -6), 1)], None),
]

def factor_spec(u, p, e):
    sp = u['spec'] if p is None else common.with_prefix(u['spec'], *p)
    t = sp.split(' ')
    # ( [ name canon short long PK PE EN ED ...   -> set exponent
    t[8] = str(e); t[9] = '1'
    return ' '.join(t[1:-1])     # strip the outer parentheses

def plan(tier, rnd, units):
    byname = {u['name']: u for u in units}
    cases = []
    for cid, facs, target in CASES:
        names = [n for n, _, _ in facs] + ([n for n, _, _ in target] if target else [])
        if any(n not in byname for n in names): continue
        involved = list(dict.fromkeys(names + [c for c in CANDIDATES if c in byname]))
        prelude = progdefs.PRELUDE_HEAD + progdefs.definitions([byname[n]['spec'] for n in involved], byname)
        def text(fs): return progdefs.unit_expr(progdefs.parse_spec('( ' + ' '.join(factor_spec(byname[n], p, e) for n, p, e in fs) + ' )'))
        def spec(fs): return '( ' + ' '.join(factor_spec(byname[n], p, e) for n, p, e in fs) + ' )'
        cfg = {0: prelude, 1: text(facs), 2: spec(facs), 7: ';'.join('%s=%s' % (n, byname[n]['spec']) for n in dict.fromkeys(names))}
        if target:
            cfg[3] = text(target); cfg[4] = spec(target)
        cases.append({'id': cid, 'label': '%s%s' % (cfg[1], (' -> ' + cfg[3]) if target else ''), 'cfg': cfg})
    to = 20000 if tier == 'quick' else 60000
    return [{'entry': 'h_c05_simplify', 'cases': cases, 'opts': {'query_timeout_ms': to, 'max_paths': 400, 'mode': 'fork', 'per_case_setup': True, 'instr_budget': 600_000_000},
             'expect_covers': ['c05-simplified', 'c05-explicit-conversion']}]

def classify(v, case): return None
