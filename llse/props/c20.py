"""C20 — HTML rendering never emits user-controlled markup."""
LEVEL = 'model_checking'
LIMITS = {'max_unsupported': 0, 'max_undecided_frac': 0.05}
OUTSIDE = ['texts longer than the stated byte bound; non-ASCII bytes (escaping is byte-wise on ASCII metacharacters; multi-byte sequences pass through the UTF-8 lossy conversion unchanged, not explored symbolically)',
           'which strings the interpreter hands to the renderers (every FormattedString and every byte written to the diagnostic writer is treated as user-controlled, which over-approximates it)',
           'attribute-context escaping (quotes): the renderers only emit user text as element content']
ASSUMPTIONS = ['every byte of the rendered text is an arbitrary ASCII byte (0..127); colour state and FormatType are symbolic over all values the renderers distinguish',
               'codespan-reporting is not executed: the writer is driven directly through std::io::Write::write_all / termcolor::WriteColor, with the text split into two writes at a symbolic position']

def bounds(tier):
    n = 2 if tier == 'quick' else 4
    return {'text_bytes': 'every ASCII string of length 0..%d (writer), 0..%d (formatter)' % (n, n), 'colour_states': 5, 'format_types': 12, 'writes_per_text': 2}

def exhaustive(tier): return True

def _inputs(rnd, case):
    conc = {}
    for i in range(8): conc['u%d' % i] = rnd.choice([60, 62, 38, 97, 34, 39, 32, 59])
    conc['u10'] = int(case['cfg'][1]); conc['u11'] = rnd.randrange(0, int(case['cfg'][0]) + 1)
    return conc

def plan(tier, rnd, units):
    n = 2 if tier == 'quick' else 4
    wcases = [{'id': 'len%d-colour%d' % (k, c), 'label': 'text of %d symbolic bytes, colour state %d' % (k, c), 'cfg': {0: str(k), 1: str(c)}} for k in range(0, n + 1) for c in range(5)]
    fcases = [{'id': 'len%d-type%d' % (k, c), 'label': 'text of %d symbolic bytes, FormatType %d' % (k, c), 'cfg': {0: str(k), 1: str(c)}} for k in range(0, n + 1) for c in range(12)]
    import copy
    return [
        {'entry': 'h_c20_writer', 'cases': wcases, 'opts': {'query_timeout_ms': 20000, 'max_paths': 40000, 'mode': 'replay'}, 'expect_covers': ['c20-writer-output-produced'], 'selftest_inputs': _inputs},
        {'entry': 'h_c20_format', 'cases': fcases, 'opts': {'query_timeout_ms': 20000, 'max_paths': 40000, 'mode': 'replay'}, 'expect_covers': ['c20-format-output-produced'], 'selftest_inputs': _inputs},
    ]

def classify(v, case): return None
