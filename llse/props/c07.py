"""C07 (partial) — incremental and batched submission agree, and a copied session is independent: definitions followed by an expression statement."""
from . import c06
LEVEL = 'model_checking'
LIMITS = {'max_unsupported': 0, 'max_undecided_frac': 0.01}
OUTSIDE = ['replaying the lines saved by the `save` command (session_history), printed output of `print` statements, imports, `ans` / `_` chains over more than the two inputs',
           'histories other than: concrete definitions (six families) as one input, then one expression statement — submitted as two inputs vs joined into one; splitting points inside the definitions',
           'copies taken at other points of a session than before the definitions']
ASSUMPTIONS = ['the expression statement\'s token kinds are symbolic over the 37-kind expression alphabet of C10; Identifier tokens are the name q defined by the definitions, Number tokens the literal 2',
               'the same six families of definitions as in C06 (a variable; a redefined function; a derived unit; a new dimension with a unit; a shadowed variable; a struct)']

def bounds(tier):
    n = 3 if tier == 'quick' else 4
    return {'expression': 'every token sequence of 1..%d tokens the real parser accepts (family var; the other families fewer), plus templates q o q o q, q o ( q o 2 ), ( q o 2 ) o q with symbolic operators' % n,
            'families': [f[0] for f in c06.FAMILIES if f[0] not in ('use', 'nomod', 'ans')] + ['lastresult (expression statements only; the expression reads ans in a session that already holds a result)']}

def exhaustive(tier): return False

def plan(tier, rnd, units):
    from . import c10
    K = c10.K; x = str(c10.ID); n2 = str(c10.NUM)
    LP, RP = str(c10.LP), str(c10.RP)
    cases = []
    # the families of C06 without the module imports, plus one in which the joined input consists of expression statements
    # only and the second one reads the last result (Identifier tokens are spelled `ans`) in a session that already holds a result
    fams = [f for f in c06.FAMILIES if f[0] not in ('use', 'nomod', 'ans')] + [('lastresult', '2', 'x; 10', c06.PRELUDE + '10\n', 'ans')]
    for f in fams:
        fam, prefix, probes = f[:3]
        if fam == 'lastresult' and tier == 'quick':
            continue        # added at the end of the session and not yet exercised: thorough tier only for now
        base = {1: f[3] if len(f) > 3 else c06.PRELUDE, 2: prefix, 3: probes, 4: f[4] if len(f) > 4 else 'q'}
        n = (3 if tier == 'quick' else 4) if fam == 'var' else ((2 if fam == 'lastresult' else 1) if tier == 'quick' else 3)
        for L in range(1, n + 1):
            for first in range(K):
                if L >= 4:
                    for second in range(K):
                        cases.append({'id': '%s-len%d-first%d-%d' % (fam, L, first, second), 'label': 'family %s: expression of %d tokens starting with kinds %d %d' % (fam, L, first, second), 'cfg': {**{0: ' '.join([str(first), str(second)] + ['s'] * (L - 2))}, **base}})
                    continue
                cases.append({'id': '%s-len%d-first%d' % (fam, L, first), 'label': 'family %s: expression of %d tokens starting with kind %d' % (fam, L, first), 'cfg': {**{0: ' '.join([str(first)] + ['s'] * (L - 1))}, **base}})
        T = [[x, 'o', x, 'o', x], [x, 'o', LP, x, 'o', n2, RP], [LP, x, 'o', n2, RP, 'o', x]]
        if tier == 'quick' and fam != 'var':
            T = [T[0]]
        OPK = [4, 5, 6, 7, 8, 9, 10, 11, 12, 13, 14, 15, 16, 17, 18, 19, 20, 21, 22, 23, 24, 25, 27]
        for i, t in enumerate(T):
            j = t.index('o')
            for opk in OPK:
                tt = list(t); tt[j] = str(opk)
                cases.append({'id': '%s-tmpl%d-op%d' % (fam, i, opk), 'label': 'family %s: template %s' % (fam, ' '.join(tt)), 'cfg': {**{0: ' '.join(tt)}, **base}})
    return [{'entry': 'h_c07_batch', 'cases': cases, 'opts': {'mode': 'replay', 'max_paths': 200000, 'instr_budget': 800_000_000},
             'expect_covers': ['c07-outside-grammar', 'c07-incremental-succeeds', 'c07-expression-fails'], 'selftest_inputs': c10._inputs}]

def classify(v, case): return None
