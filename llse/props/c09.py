"""C09 — compiled programs compute what their source means."""
from . import progdefs

LEVEL = 'model_checking'
LIMITS = {'max_unsupported': 0, 'max_undecided_frac': 0.25}
OUTSIDE = ['programs that are not instances of the listed templates (the templates cover: shadowing of globals seen from functions and where-clauses, parameters shadowing globals, where-clause locals, argument order, nested conditionals, negated comparisons, && / || / ! combinations, bounded recursion, function values, reverse application, struct field order and nested access, list head/tail/cons/len, string interpolation order, division by zero)',
           'interpolation of scalars into strings (float formatting is not symbolically executable); quantities with units (covered by C03/C04/C12)']
ASSUMPTIONS = ['every scalar literal of a template is a symbolic double injected through the __verif_sym hook (all doubles; the recursion template assumes its argument in [0, 3.5])',
               'the reference evaluator of each template (harness/src/h_prog.rs) applies the language rules to the template directly, on the same symbolic inputs; numeric results must agree bit for bit']

H = '__verif_sym(%d)'
def S(t):
    for i in range(4): t = t.replace('S%d' % i, H % i)
    return t

LISTS = 'use core::lists\n'
TEMPLATES = [
    ('shadow-global-in-fn', '', 'let rate = S0\nlet rate = S1\nfn cost(n) = n * rate\ncost(S2)'),
    ('shadow-global-in-where', '', 'let rate = S0\nlet rate = S1\nfn scaled(n) = m * n where m = rate + n\nscaled(S2)'),
    ('param-shadows-global', '', 'let x = S0\nfn f(x) = x + 1\nf(S1)'),
    ('where-clause', '', 'fn f(n) = m * n where m = S0 + n\nf(S1)'),
    ('where-two-locals', '', 'fn f(n) = p + q * n where p = n * S0 and q = p + 1\nf(S1)'),
    ('argument-order', '', 'fn sub3(a, b, c) = a - b - c\nsub3(S0, S1, S2)'),
    ('nested-conditional', '', 'if S0 > S1 then (if S2 > 0 then S0 else S1) else S2'),
    ('negated-comparison', '', '!(S0 < S1)'),
    ('negated-comparisons-and', '', '!(S0 >= S1) && !(S1 > S2)'),
    ('negated-le', '', '!(S0 <= S1) || !(S1 != S2)'),
    ('and-or', '', '(S0 > 0) && (S1 > 0) || (S2 > 0)'),
    ('or-and-not', '', '(S0 > 0) || !(S1 > 0) && (S2 == S0)'),
    ('conditional-arith', '', 'if S0 < S1 && S1 < S2 then S0 + S1 * S2 else (S0 - S1) / 2'),
    ('recursion-sum', '', 'fn total(n) = if n < 1 then 0 else n + total(n - 1)\ntotal(S0)'),
    ('function-value', '', 'fn inc(x) = x + S0\nfn twice(f: Fn[(Scalar) -> Scalar], x) = f(f(x))\ntwice(inc, S1)'),
    ('reverse-application', '', 'fn inc(x) = x + S0\nfn scale(k, x) = x * k\nS1 |> inc |> scale(S2)'),
    ('struct-fields', '', 'struct P { a: Scalar, b: Scalar, c: Scalar }\nlet p = P { c: S2, a: S0, b: S1 }\np.a - p.b * p.c'),
    ('struct-nested-access', '', 'struct In { v: Scalar, w: Scalar }\nstruct Out { i: In, k: Scalar }\nlet o = Out { k: S0, i: In { w: S1, v: S2 } }\no.i.v + o.k'),
    ('struct-literal-direct-access', '', 'struct Pair { first: Scalar, second: Scalar }\nPair { second: S1, first: S0 }.first - Pair { second: S1, first: S0 }.second'),
    ('builtin-via-function-value', LISTS, 'let f = cons_end\nhead(f(S0, [S1, S2]))'),
    ('builtin-via-fn-parameter', LISTS, 'fn apply2(f: Fn[(Scalar, List<Scalar>) -> List<Scalar>], a: Scalar, b: List<Scalar>) -> List<Scalar> = f(a, b)\nlet xs = apply2(cons, S0, [S1, S2])\nelement_at(2, xs) - head(xs)'),
    ('nested-call-frames', '', 'fn g(x) = x * S0\nfn f(x, y) = g(x) + g(y) - x\nf(S1, S2)'),
    ('list-head-tail', LISTS, 'head(tail([S0, S1, S2]))'),
    ('list-cons', LISTS, 'let xs = cons(S0, [S1, S2])\nelement_at(2, xs) - head(xs)'),
    ('list-len', LISTS, 'len(cons_end(S0, [S1, S2]))'),
    ('string-interpolation', '', '"{S0 > S1} and {"x"}/{S1 > S0}"'),
    ('division', '', 'S0 / S1'),
]

def bounds(tier):
    return {'templates': len(TEMPLATES), 'symbolic_inputs': 'up to 4 scalar literals per template, all doubles'}

def exhaustive(tier): return False

def plan(tier, rnd, units):
    cases = []
    for tid, extra, text in TEMPLATES:
        cases.append({'id': tid, 'label': text.replace('\n', ' ; '), 'cfg': {0: (extra + 'fn __verif_sym(i: Scalar) -> Scalar\n') if extra else progdefs.PRELUDE_HEAD, 1: S(text), 2: tid}})
    to = 20000 if tier == 'quick' else 60000
    return [{'entry': 'h_c09_prog', 'cases': cases, 'opts': {'query_timeout_ms': to, 'max_paths': 400, 'mode': 'fork', 'per_case_setup': True, 'instr_budget': 400_000_000},
             'expect_covers': ['c09-program-evaluated', 'c09-documented-runtime-error']}]

def classify(v, case): return None
