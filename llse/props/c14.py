"""C14 (partial) — displayed numbers read back as the value they show: integer branch."""
LEVEL = 'model_checking'
LIMITS = {'max_unsupported': 0, 'max_undecided_frac': 0.05}
OUTSIDE = ['the floating-point branch (pretty_dtoa / ryu: table-driven 128-bit arithmetic on symbolic bits is not executable symbolically), significant-digit rounding, e-notation, inf / NaN keywords',
           'integers at or above the stated magnitude bound (digit extraction divides by constants; the solver decides it for the stated bound, larger bounds time out) — the property claims all integers below 2^53']
ASSUMPTIONS = ['x ranges over all integer-valued doubles below the bound (both signs, zero, negative zero)', 'separator / threshold settings are concrete per case']

def bounds(tier):
    return {'settings': 'separator in {"_", ",", none} x grouping threshold in {1, 4, 6, 12}', 'values': 'all integer-valued doubles with |x| < 10^5 (quick) / 10^7 (thorough)'}

def exhaustive(tier): return False

def _inputs(rnd, case):
    import struct as st
    b = float(case['cfg'][2])
    return {'f0': st.unpack('<Q', st.pack('<d', float(rnd.choice([0, 1, -1, 999, 1000, -1000, 12345, 99999, 100000, 123456, 999999]) % int(b))))[0]}

def plan(tier, rnd, units):
    B = '100000' if tier == 'quick' else '10000000'
    settings = [('_', 6), (',', 4), ('none', 6)] + ([('_', 1), ('_', 12), (',', 6), ('_', 4)] if tier == 'thorough' else [])
    cases = [{'id': 'sep%s-thr%d' % (s if s != ',' else 'comma', t), 'label': 'separator %s, threshold %d, |x| < %s' % (s, t, B), 'cfg': {0: s, 1: str(t), 2: B}} for s, t in settings]
    to = 5000 if tier == 'quick' else 60000
    return [{'entry': 'h_c14_integer', 'cases': cases, 'opts': {'mode': 'replay', 'max_paths': 5000, 'instr_budget': 50_000_000, 'query_timeout_ms': to},
             'expect_covers': ['c14-formatted'], 'selftest_inputs': _inputs}]

def classify(v, case): return None
