"""C14 (partial) — displayed numbers read back as the value they show: integer branch."""
LEVEL = 'model_checking'
LIMITS = {'max_unsupported': 0, 'max_undecided_frac': 0.05}
OUTSIDE = ['the floating-point branch (pretty_dtoa / ryu: table-driven 128-bit arithmetic on symbolic bits is not executable symbolically), significant-digit rounding, e-notation, inf / NaN keywords',
           'integers outside the stated range and windows (digit extraction divides by constants; the solver decides it for the stated bound, larger bounds time out) — the property claims all integers below 2^53']
ASSUMPTIONS = ['x ranges over all integer-valued doubles below the bound (both signs, zero, negative zero)', 'separator / threshold settings are concrete per case']

def bounds(tier):
    return {'settings': 'separator in {"_", ",", none} x grouping threshold in {1, 4, 6, 12}', 'values': 'all integer-valued doubles with |x| < 10^5 (quick) / 10^7 (thorough); plus windows |x - c| < 20000 (thorough: 200000) around c = +-2^31, 2^32, 2^53, 10^6, 10^9, 10^12, -10^15 and seeded centres below 2^53 (thorough: every +-10^k, k = 6..15)'}

def exhaustive(tier): return False

def _inputs(rnd, case):
    import struct as st
    b = float(case['cfg'][2]); c = float(case['cfg'].get(3, '0'))
    return {'f0': st.unpack('<Q', st.pack('<d', c + float(rnd.choice([0, 1, -1, 999, 1000, -1000, 12345, 99999, 100000, 123456, 999999]) % int(b))))[0]}

def plan(tier, rnd, units):
    B = '100000' if tier == 'quick' else '10000000'
    settings = [('_', 6), (',', 4), ('none', 6)] + ([('_', 1), ('_', 12), (',', 6), ('_', 4)] if tier == 'thorough' else [])
    cases = [{'id': 'sep%s-thr%d' % (s if s != ',' else 'comma', t), 'label': 'separator %s, threshold %d, |x| < %s' % (s, t, B), 'cfg': {0: s, 1: str(t), 2: B}} for s, t in settings]
    # windows |x - c| < W around the boundaries the property names (powers of ten, 2^31, 2^32, 2^53) and seeded centres
    W = '20000' if tier == 'quick' else '200000'
    centres = [('none', 6, 2 ** 31), ('none', 6, -2 ** 31), ('none', 6, 2 ** 32), ('none', 6, 2 ** 53 - 20000), ('_', 6, 10 ** 6), ('_', 6, 10 ** 9), (',', 4, 10 ** 12), ('_', 6, -10 ** 15)]
    centres += [(rnd.choice(['none', '_', ',']), rnd.choice([4, 6]), rnd.choice([1, -1]) * rnd.randrange(10 ** 5, 2 ** 53 - 10 ** 6)) for _ in range(2 if tier == 'quick' else 12)]
    if tier == 'thorough':
        centres += [(s_, t_, sg * 10 ** k) for k in range(6, 16) for s_, t_ in [('none', 6), ('_', 6)] for sg in (1, -1)]
    for s_, t_, c in centres:
        cases.append({'id': 'sep%s-thr%d-c%d' % (s_ if s_ != ',' else 'comma', t_, c), 'label': 'separator %s, threshold %d, |x - %d| < %s' % (s_, t_, c, W), 'cfg': {0: s_, 1: str(t_), 2: W, 3: str(c)}})
    to = 5000 if tier == 'quick' else 60000
    return [{'entry': 'h_c14_integer', 'cases': cases, 'opts': {'mode': 'replay', 'max_paths': 5000, 'instr_budget': 50_000_000, 'query_timeout_ms': to},
             'expect_covers': ['c14-formatted'], 'selftest_inputs': _inputs}]

def classify(v, case): return None
