"""C11 — comparisons do not depend on operand order."""
from . import common

LEVEL = 'model_checking'
LIMITS = {'max_unsupported': 0, 'max_undecided_frac': 0.25}
OUTSIDE = ['unit pairs not selected by the plan (quick tier: seeded subset; thorough: one ordered pair per unit against a same-dimension partner, plus prefix pairs)',
           'operands that are not a single (possibly prefixed) standard-library unit times a magnitude (compound unit expressions)',
           'non-quantity operands of == / != (strings, booleans, lists)']
ASSUMPTIONS = ['operands are built as `a × u1` and `b × u2` by the bytecode the compiler emits for `a u1 <op> b u2` (LoadConstant, LoadConstant, Multiply); a, b range over all 2^64 bit patterns']

def bounds(tier):
    return {'symbolic_inputs': 'a, b: all f64 bit patterns (incl. ±0, subnormals, ±inf, NaN)', 'per_case': 'all 12 comparison statements (<, >, <=, >=, ==, != in both operand orders) through the real VM opcodes, plus PartialEq on Quantity',
            'pairs': 'quick: 10 seeded pairs; thorough: every unit paired with a seeded same-dimension partner + prefixed variants',
            'query_timeout_s': 20 if tier == 'quick' else 60}

def exhaustive(tier): return False

def pairs(tier, rnd, units):
    g = common.by_dimension(units)
    out = []
    def add(u1, p1, u2, p2):
        s1 = u1['spec'] if p1 is None else common.with_prefix(u1['spec'], *p1)
        s2 = u2['spec'] if p2 is None else common.with_prefix(u2['spec'], *p2)
        e1 = common.exact_size(u1['spec'], p1); e2 = common.exact_size(u2['spec'], p2)
        # "differ in size" from the definition trees alone. Two definitions of the same real number through different
        # inexact constants (revolution = 2π rad, turn = 360°) differ as exact rationals by a rounding error only:
        # such near-ties are left to the implementation's own comparison of its factors (no cfg 2).
        if e1 is None or e2 is None: differ = ''
        elif e1 == e2: differ = '0'
        elif abs(e1 - e2) <= max(abs(e1), abs(e2)) / 10**9: differ = ''
        else: differ = '1'
        cfg = {0: s1, 1: s2}
        if differ: cfg[2] = differ
        out.append({'id': 'p%d' % len(out), 'label': '%s vs %s' % (common.label(u1, p1), common.label(u2, p2)), 'cfg': cfg})
    byname = {u['name']: u for u in units}
    # fixed pairs: same unit, prefix-only, the property's own example, equal-size pairs of distinct units (with and
    # without a common prefix, incl. a non-power-of-two factor), two different prefixes of one unit incl. the extremes
    fixed = [('metre', None, 'metre', None), ('metre', None, 'metre', ('M', 3)), ('firkin', None, 'long_hundredweight', None),
             ('hertz', None, 'becquerel', None), ('inch', None, 'metre', ('M', -2)), ('byte', ('I', 10), 'bit', None),
             ('gray', ('M', -3), 'sievert', ('M', -3)), ('imperial_fluid_drachm', None, 'imperial_teaspoon', None), ('revolution', None, 'turn', None),
             ('metre', ('M', 24), 'metre', ('M', 21)), ('second', ('M', -18), 'second', ('M', -21))]
    if tier == 'thorough':
        fixed += [('gram', ('M', 30), 'gram', ('M', 27)), ('metre', ('M', -27), 'metre', ('M', -30)), ('byte', ('I', 70), 'byte', ('I', 80)),
                  ('hertz', ('M', -3), 'becquerel', ('M', -3)), ('lux', ('M', 3), 'nit', ('M', 3)), ('electronvolt', None, 'electronvolt', ('M', -3))]
    for a, pa, b, pb in fixed:
        if a in byname and b in byname: add(byname[a], pa, byname[b], pb)
    multi = [v for v in g.values() if len(v) >= 2]
    n_rand = 3 if tier == 'quick' else 0
    for _ in range(n_rand):
        grp = rnd.choice(multi); u1, u2 = rnd.sample(grp, 2)
        p1 = rnd.choice([None] + common.prefixed_variants(u1)) if rnd.random() < 0.4 else None
        add(u1, p1, u2, None)
    # one unit under two different (seeded) prefixes
    pref = [u for u in units if u['metric']]
    for _ in range(1 if tier == 'quick' else 12):
        u = rnd.choice(pref); p1, p2 = rnd.sample(common.prefixed_variants(u), 2)
        add(u, p1, u, p2)
    if tier == 'thorough':
        for grp in multi:
            for u1 in grp:
                u2 = rnd.choice([x for x in grp if x is not u1])
                add(u1, None, u2, None)
                pv = common.prefixed_variants(u1)
                if pv: add(u1, rnd.choice(pv), u2, None)
    return out

def plan(tier, rnd, units):
    ps = pairs(tier, rnd, units)
    to = 20000 if tier == 'quick' else 60000
    import copy
    return [
        {'entry': 'h_c11_vm', 'cases': copy.deepcopy(ps), 'opts': {'query_timeout_ms': to, 'max_paths': 400},
         'expect_covers': ['c11-vm-all-evaluated', 'c11-vm-nan-operand', 'c11-vm-non-nan']},
        {'entry': 'h_c11_api', 'cases': copy.deepcopy(ps), 'opts': {'query_timeout_ms': to, 'max_paths': 400}, 'expect_covers': ['c11-api-eq-evaluated']},
    ]

def classify(v, case):
    return None
