"""C12 — addition commutes and subtraction anti-commutes, units included."""
from . import common, c11

LEVEL = 'model_checking'
LIMITS = {'max_unsupported': 0, 'max_undecided_frac': 0.25}
OUTSIDE = ['unit pairs not selected by the plan', 'three-operand sums (float addition is not associative; only the two-operand claims are decided)',
           'the displayed text itself: it is a deterministic function of (magnitude bits, unit structure), which are what is compared']
ASSUMPTIONS = ['operands are built as `a × u1`, `b × u2` by the bytecode the compiler emits; a, b range over all 2^64 bit patterns',
               '"differ in size" is decided as: conversion factors to base units differ (the criterion smaller_unit uses)']

def bounds(tier):
    return {'symbolic_inputs': 'a, b: all f64 bit patterns', 'per_case': 'a+b, b+a, a-b, b-a through the real VM Add/Subtract opcodes',
            'pairs': 'quick: 10 seeded pairs incl. equal-size pairs (Hz/Bq) and prefix pairs; thorough: every unit against a seeded same-dimension partner + prefixed variants'}

def exhaustive(tier): return False

def plan(tier, rnd, units):
    ps = c11.pairs(tier, rnd, units)
    to = 20000 if tier == 'quick' else 60000
    return [{'entry': 'h_c12_api', 'cases': ps, 'opts': {'query_timeout_ms': to, 'max_paths': 400},
             'expect_covers': ['c12-all-evaluated', 'c12-side-condition-holds', 'c12-equal-size-or-both-zero']}]

def classify(v, case): return None
