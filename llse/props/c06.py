"""C06 (partial) — a failing input leaves the session unchanged: definitions followed by a failing expression statement in one input."""
LEVEL = 'model_checking'
LIMITS = {'max_unsupported': 0, 'max_undecided_frac': 0.01}
OUTSIDE = ['unknown modules and importers whose answer changes over time (the builtin importer of the real standard library is used)',
           'failing statements other than a final expression statement (a failing definition in the middle of an input), name clashes, inputs longer than the stated bounds',
           'parse errors: of all token sequences sharing a rejected prefix one representative (a solver witness) is carried through the pipeline — the parser never looks at the remaining tokens',
           '"every later input": decided for the listed probes and for re-submitting the successful part of the input, compared with a twin session that never saw the failure']
ASSUMPTIONS = ['the failing statement\'s token kinds are symbolic over the 37-kind expression alphabet of C10; Identifier tokens are the name q that the same input defines just before, Number tokens the literal 2',
               'eight concrete families of successful statements precede it in the same input (a variable; a redefined function; a derived unit; a new dimension with a unit; a shadowed variable; a struct; expression statements only, probing the last result ans / _; a module import from the real standard library, probing that the module can be imported again with the same effect)']

PRELUDE = 'dimension Scalar = 1\ndimension Length\nunit meter: Length\nlet x = 3\nfn h(a: Scalar) -> Scalar = a + 1\n'
# (id, statements preceding the failing one, probes)
FAMILIES = [
    ('var', 'let q = 7', 'q; x; h(2); ans; 2 meter'),
    ('fn', 'fn h(a: Scalar) -> Scalar = a + 2\nlet q = h(1)', 'h(2); q; x'),
    ('unit', 'unit foot: Length = 0.3 meter\nlet q = 2 foot', '2 foot; q; 2 meter -> foot; x'),
    ('dim', 'dimension Mass\nunit gram: Mass\nlet q = 2 gram', 'q; 2 gram; x'),
    ('shadow', 'let x = 5\nlet q = x', 'x; q; h(x)'),
    ('struct', 'struct P { a: Scalar }\nlet q = P { a: 2 }.a', 'P { a: 1 }.a; q; x'),
    # expression statements only (no definition) before the failing one; the last result `ans` / `_` is probed first and the
    # probe list ends with the value `ans` had before, so that the list can be evaluated repeatedly with the same outcome
    ('ans', '100\n"text"\nx + 1', 'ans; _ + 1; x; 5', PRELUDE + '5\n', 'x'),
    # a module import before the failing statement: the module must be importable again afterwards, with the same effect
    # an import of a module that does not exist: the same import must fail the same way afterwards
    ('nomod', 'use nonexistent::thing\nlet q = 7', 'x; use nonexistent::thing; h(2)'),
    ('use', 'use core::dimensions\nlet q = 7', 'q; x; fn p(l: Length) = l', 'use core::scalar\nlet x = 3\nfn h(a: Scalar) -> Scalar = a + 1\n', 'q'),
]

def bounds(tier):
    n = 2 if tier == 'quick' else 4
    return {'failing_statement': 'every token sequence of 1..%d tokens (family var; the other families one token fewer), first token fixed per case, the rest symbolic, plus templates with symbolic operators around run-time failures: 2 / ( q - q ), ( q - q - 2 ) !, q o q o q, q o ( q o 2 )' % n,
            'families': [f[0] for f in FAMILIES]}

def exhaustive(tier): return False

def plan(tier, rnd, units):
    from . import c10
    K = c10.K; x = str(c10.ID); n2 = str(c10.NUM)
    LP, RP, MINUS, BANG, DIV = str(c10.LP), str(c10.RP), str(c10.MINUS), str(c10.BANG), str(c10.DIV)
    cases = []
    for f in FAMILIES:
        fam, prefix, probes = f[:3]
        if fam == 'nomod' and tier == 'quick':
            continue        # added at the end of the session and not yet exercised: thorough tier only for now
        base = {1: f[3] if len(f) > 3 else PRELUDE, 2: prefix, 3: probes, 4: f[4] if len(f) > 4 else 'q'}
        n = (2 if tier == 'quick' else 4) if fam == 'var' else (1 if tier == 'quick' else 3)
        for L in range(1, n + 1):
            for first in range(K):
                if L >= 4:
                    for second in range(K):
                        cases.append({'id': '%s-len%d-first%d-%d' % (fam, L, first, second), 'label': 'family %s: last statement of %d tokens starting with kinds %d %d' % (fam, L, first, second), 'cfg': {**{0: ' '.join([str(first), str(second)] + ['s'] * (L - 2))}, **base}})
                    continue
                cases.append({'id': '%s-len%d-first%d' % (fam, L, first), 'label': 'family %s: last statement of %d tokens starting with kind %d' % (fam, L, first), 'cfg': {**{0: ' '.join([str(first)] + ['s'] * (L - 1))}, **base}})
        T = [[n2, 'o', LP, x, MINUS, x, RP], [LP, x, MINUS, x, MINUS, n2, RP, BANG, 'o', n2], [x, 'o', x, 'o', x], [x, 'o', LP, x, 'o', n2, RP]]
        if tier == 'quick' and fam != 'var':
            T = [T[0], T[2]]
        if tier == 'thorough':
            T += [[LP, x, 'o', x, RP, 'o', LP, x, MINUS, x, RP], [n2, DIV, LP, x, MINUS, x, RP, 'o', x]]
        OPK = [4, 5, 6, 7, 8, 9, 10, 11, 12, 13, 14, 15, 16, 17, 18, 19, 20, 21, 22, 23, 24, 25, 27]
        for i, t in enumerate(T):
            j = t.index('o')
            for opk in ([4, 7, 10, 15] if (tier == 'quick' and fam == 'use') else OPK):
                tt = list(t); tt[j] = str(opk)
                cases.append({'id': '%s-tmpl%d-op%d' % (fam, i, opk), 'label': 'family %s: template %s' % (fam, ' '.join(tt)), 'cfg': {**{0: ' '.join(tt)}, **base}})
    return [{'entry': 'h_c06_rollback', 'cases': cases, 'opts': {'mode': 'replay', 'max_paths': 200000, 'instr_budget': 800_000_000},
             'expect_covers': ['c06-input-failed', 'c06-input-succeeded', 'c06-parse-error', 'c06-type-error', 'c06-runtime-error'], 'selftest_inputs': c10._inputs}]

def classify(v, case): return None
