"""C08 — no input crashes or hangs the interpreter (kernels)."""
LEVEL = 'model_checking'
LIMITS = {'max_unsupported': 0, 'max_undecided_frac': 0.95}
REPLAY_TIMEOUT = 20
OUTSIDE = ['arbitrary UTF-8 program text: a symbolic text would have to pass the keyword hash map and float parsing (not executable symbolically); the tokenizer kernel covers short strings over ASCII without identifier characters, the parser kernel (shared with C10) covers token-kind sequences',
           'exponent kernels: bounded exploration of the rational-arithmetic paths (gcd loops on symbolic 128-bit values); a bug-hunting claim, not an exhaustive one (path budget stated in bounds)',
           'diagnostic rendering (codespan) and "finishes promptly" beyond the instruction budgets']
ASSUMPTIONS = ['checked build (overflow-checks and debug-assertions on), as the property words it',
               'a kernel finding (panic / wrong value / budget overrun on a function driven directly) is reported only if the same inputs submitted as source text through Context::interpret abort, hang or misbehave natively; otherwise it is listed as kernel-only in the evidence']

def bounds(tier):
    return {'tokenizer': 'every string of 1..2 (thorough: 3) characters over a 38-character alphabet (operators, brackets, whitespace, digits, quote, comment sign) plus 14 Unicode operator characters in every position of 2- (thorough: 3-) character strings',
            'date-time kernel': 'the AddToDateTime / SubFromDateTime opcodes on the instant 2000-01-01T00:00Z with a symbolic duration in seconds (all doubles): range checks and conversion to a jiff span decided; the calendar arithmetic inside jiff is mostly undecided (divisions by 86400 on symbolic 64-bit values) and not claimed',
            'factorial': 'x in {0,1,3,5}; order (number of "!") symbolic over 1..2^20 (inputs of up to 1 MiB of "!")',
            'exponent / dtype kernels': 'two symbolic integer exponents g*2^74 with |g| <= 2^52 (up to 2^126, exactly expressible as numeric literals); %d paths per operation (bounded exploration)' % (30 if tier == 'quick' else 400),
            'instruction_budget_per_path': 20_000_000}

def exhaustive(tier): return False

def _inputs(rnd, case):
    c = {'u0': rnd.choice([1, 2, 3, 7, 65535]), 'u1': 0, 'u2': rnd.choice([0, 1, 5]), 'u3': 0}
    if case['id'].startswith('x'): c['u0'] = rnd.choice([1, 2, 3, 4, 5, 6, 100, 65535])
    return c

from . import common

def _dt_inputs(rnd, case):
    import struct as st
    return {'f0': st.unpack('<Q', st.pack('<d', rnd.choice([0.0, 1.5, -86400.25, 1e9, 1e100, float('nan'), 3600.0])))[0]}

def plan(tier, rnd, units):
    npaths = 24 if tier == 'quick' else 400
    fact = [{'id': 'x%s' % x, 'label': '%s followed by a symbolic number of "!"' % x, 'cfg': {0: x, 1: '1'}} for x in ('0', '1', '3', '5')]
    ops = ['power-of-power', 'mul-merge']
    dops = ['try-multiply', 'try-divide', 'try-power', 'multiply']
    return [
        common.tokenizer_job(tier),
        {'entry': 'h_c08_factorial', 'cases': fact, 'opts': {'mode': 'replay', 'max_paths': 2000, 'instr_budget': 20_000_000, 'query_timeout_ms': 10000},
         'panic_is_violation': True, 'bound_is_violation': True, 'confirm_entry': 'h_c08_factorial_text', 'expect_covers': ['c08-factorial-evaluated'], 'selftest_inputs': _inputs},
        {'entry': 'h_c19_add', 'cases': [{'id': 'dt-add', 'label': 'date-time + symbolic duration', 'cfg': {0: '946684800', 1: 'add'}}, {'id': 'dt-sub', 'label': 'date-time - symbolic duration', 'cfg': {0: '946684800', 1: 'sub'}}],
         'opts': {'mode': 'fork', 'max_paths': 30 if tier == 'quick' else 200, 'instr_budget': 50_000_000, 'query_timeout_ms': 3000}, 'bounded_exploration': True,
         'panic_is_violation': True, 'confirm_entry': 'h_c19_add_text', 'expect_covers': ['c19-evaluated', 'c19-out-of-range-error'], 'selftest_inputs': _dt_inputs},
        {'entry': 'h_c08_exponent', 'cases': [{'id': 'exp-' + o, 'label': o, 'cfg': {0: o}} for o in ops],
         'opts': {'mode': 'replay', 'max_paths': npaths, 'instr_budget': 20_000_000, 'query_timeout_ms': 3000}, 'bounded_exploration': True,
         'panic_is_violation': True, 'confirm_entry': 'h_c08_exponent_text', 'expect_covers': ['c08-exponent-start'], 'selftest_inputs': _inputs},
        {'entry': 'h_c08_dtype', 'cases': [{'id': 'dtype-' + o, 'label': o, 'cfg': {0: o}} for o in dops],
         'opts': {'mode': 'replay', 'max_paths': npaths, 'instr_budget': 20_000_000, 'query_timeout_ms': 3000}, 'bounded_exploration': True,
         'panic_is_violation': True, 'confirm_entry': 'h_c08_dtype_text', 'expect_covers': ['c08-dtype-start'], 'selftest_inputs': _inputs},
    ]

def classify(v, case):
    e = v['entry']
    if e == 'h_c08_exponent' and v['tag'] == 'panic': return 'runtime-exponent-overflow'
    if e == 'h_c08_dtype' and v['tag'] == 'panic': return 'checker-exponent-overflow'
    return None
