"""C21 — assertions decide exactly their documented predicate."""
from . import common, progdefs

LEVEL = 'model_checking'
LIMITS = {'max_unsupported': 0, 'max_undecided_frac': 0.25}
OUTSIDE = ['non-quantity arguments of assert_eq (strings, booleans, lists, structs: derived equality, not explored)',
           'unit triples not selected by the plan; compound unit expressions as arguments',
           'the text of the failure message (its formatting goes through float printing, which is not symbolically executable)']
ASSUMPTIONS = ['each case runs in a real session (Context::interpret: tokenizer, parser, type checker, compiler, VM) whose prelude defines just the units of the case, generated from the catalog definition trees and checked to be structurally equal to the standard-library units',
               'the reference predicate is evaluated with the same real conversion routine (Quantity::convert_to) in the documented direction; the claim is about which predicate is decided (direction of conversion, <= vs <, abs, NaN handling, abort on failure), not about rounding inside convert_to',
               'a, b, eps range over all f64 bit patterns']

def bounds(tier):
    return {'symbolic_inputs': 'a, b, eps: all f64 bit patterns', 'programs': 'assert(a < b); assert_eq(a u1, b u2); assert_eq(a u1, b u2, eps u3), each followed by print + let marker',
            'unit_triples': 'quick: 5 seeded triples of same-dimension units (incl. one all-equal and one prefixed); thorough: 40'}

def exhaustive(tier): return False

def triples(tier, rnd, units):
    g = common.by_dimension(units)
    byname = {u['name']: u for u in units}
    simple = lambda u: all(c.isalnum() or c == '_' for c in u['canonical']) and all(ord(c) < 128 for c in u['canonical'])
    out = []
    def add(us, ps):
        specs = [u['spec'] if p is None else common.with_prefix(u['spec'], *p) for u, p in zip(us, ps)]
        texts = [progdefs.unit_expr(progdefs.parse_spec(s)) for s in specs]
        prelude = progdefs.PRELUDE_HEAD + progdefs.definitions([u['spec'] for u in us], byname)
        names = ';'.join('%s=%s' % (u['name'], u['spec']) for u in {u['name']: u for u in us}.values())
        out.append({'id': 't%d' % len(out), 'label': ' / '.join(common.label(u, p) for u, p in zip(us, ps)),
                    'cfg': {0: prelude, 1: texts[0], 2: texts[1], 3: texts[2], 4: specs[0], 5: specs[1], 6: specs[2], 7: names}})
    fixed = [(('metre', None), ('metre', None), ('metre', None)), (('metre', None), ('metre', None), ('metre', ('M', -2))),
             (('inch', None), ('foot', None), ('metre', ('M', -3))), (('second', None), ('minute', None), ('second', ('M', -3)))]
    for t in fixed:
        if all(n in byname for n, _ in t): add([byname[n] for n, _ in t], [p for _, p in t])
    multi = [[u for u in v if simple(u)] for v in g.values()]
    multi = [v for v in multi if len(v) >= 2]
    n_rand = 1 if tier == 'quick' else 36
    for _ in range(n_rand):
        grp = rnd.choice(multi)
        us = [rnd.choice(grp) for _ in range(3)]
        ps = [rnd.choice([None] + common.prefixed_variants(u)) if rnd.random() < 0.3 else None for u in us]
        add(us, ps)
    return out

def plan(tier, rnd, units):
    ts = triples(tier, rnd, units)
    to = 20000 if tier == 'quick' else 60000
    import copy
    base = {'query_timeout_ms': to, 'max_paths': 600, 'mode': 'fork', 'per_case_setup': True}
    return [
        {'entry': 'h_c21_assert', 'cases': [{'id': 'assert', 'label': 'assert(a < b)', 'cfg': {0: progdefs.PRELUDE_HEAD}}], 'opts': base, 'expect_covers': ['c21-assert-evaluated']},
        {'entry': 'h_c21_eq2', 'cases': copy.deepcopy(ts), 'opts': base, 'expect_covers': ['c21-eq2-evaluated']},
        {'entry': 'h_c21_eq3', 'cases': copy.deepcopy(ts), 'opts': base, 'expect_covers': ['c21-eq3-evaluated']},
    ]

def classify(v, case): return None
