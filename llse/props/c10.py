"""C10 — parsing follows the documented grammar and precedence table."""
LEVEL = 'model_checking'
LIMITS = {'max_unsupported': 0, 'max_undecided_frac': 0.01}
OUTSIDE = ['token sequences longer than the exhaustive bound that do not match one of the listed templates',
           'statements other than a single expression; struct instantiation `Name { … }`, string interpolation, newlines inside expressions, decimal number / identifier lexing (every Number is the literal 1; decimal literals go through the float parser of the standard library, whose table lookups on symbolic digits are out of reach; hexadecimal / octal / binary literal values are covered by the literal kernel, every Identifier is x: the tree shape does not depend on the lexeme) — the mapping from characters to token kinds is the subject of the tokenizer kernel of C08',
           'the reference treats `*` and `/` (and `+` and `-`) as one left-associative level each, as ordinary arithmetic does; operations.md lists them on separate rows']
ASSUMPTIONS = ['the reference parser (harness/src/h_parse.rs: precedence climbing over the operator table transcribed from book/src/basics/operations.md, plus the primary / call / list forms) is the specification; details on which the documentation is silent follow the behaviour of the unchanged tree and are listed in DESIGN.md',
               'token kinds are symbolic over an alphabet of 37 expression-level kinds (all operators in the table, brackets, keywords if/then/else/per/to, literals, `=` as a representative foreign token)']

K = 37
NUM, ID, LP, RP, PLUS, MINUS, MUL, DIV, POW, PER, ARROW, TO, PIPE, UEXP, BANG = range(15)
IF, THEN, ELSE = 23, 24, 25

def bounds(tier):
    n = 3 if tier == 'quick' else 4
    return {'tokenizer': 'operator spellings: every string of 1..2 (thorough: 3) characters over operators / brackets / whitespace / digits and 14 Unicode operator characters must tokenize exactly as the documented spelling table says, or be rejected',
            'literals': 'hexadecimal (1..32 digits), octal (1..43) and binary (1..128) literals, every digit symbolic within its class (0-9 / a-f / A-F per position; quick: 7 hex lengths x 2 class patterns), separators at fixed positions: the value is the double nearest to the integer the digits spell, literals of 128 bits are rejected',
            'exhaustive_sequences': 'every sequence of 1..%d tokens over the 37-kind alphabet (first token fixed per case, the rest symbolic)' % n,
            'templates': 'longer sequences with operands fixed and 2-3 operator positions symbolic over the 23 operators: x o x o x, x o x o x o x, - x o x o x, x o - x o x, x o x o x !, if x o x then x o x else x o x, if x then x else x o x o x, x o x o x o x with parentheses variants'}

def exhaustive(tier): return False

def _inputs(rnd, case):
    return {'u%d' % i: rnd.randrange(0, 23) for i in range(12)}

def plan(tier, rnd, units):
    n = 3 if tier == 'quick' else 4
    cases = []
    for L in range(1, n + 1):
        for first in range(K):
            if L >= 4:
                # split by the first two tokens for load balancing
                for second in range(K):
                    pat = ' '.join([str(first), str(second)] + ['s'] * (L - 2))
                    cases.append({'id': 'len%d-first%d-%d' % (L, first, second), 'label': 'all sequences of %d tokens starting with kinds %d %d' % (L, first, second), 'cfg': {0: pat}})
                continue
            pat = ' '.join([str(first)] + ['s'] * (L - 1))
            cases.append({'id': 'len%d-first%d' % (L, first), 'label': 'all sequences of %d tokens starting with kind %d' % (L, first), 'cfg': {0: pat}})
    x = str(ID); n1 = str(NUM)
    T = [
        [x, 'o', x, 'o', x], [n1, 'o', x, 'o', n1], [str(MINUS), x, 'o', x, 'o', x], [x, 'o', str(MINUS), x, 'o', x], [x, 'o', x, 'o', x, str(BANG)],
        [x, 'o', x, str(UEXP), 'o', x], [x, 'o', x, x, 'o', x], [n1, x, 'o', n1, x], [x, 'o', x, 'o', x, 'o', x],
        [str(IF), x, 'o', x, str(THEN), x, str(ELSE), x, 'o', x], [str(IF), x, str(THEN), x, 'o', x, str(ELSE), x, 'o', x],
        [str(IF), x, str(THEN), x, str(ELSE), x, 'o', x, 'o', x], [x, 'o', str(LP), x, 'o', x, str(RP), 'o', x], [x, str(LP), x, 'o', x, str(RP), 'o', x],
        [str(BANG), x, 'o', x, 'o', x], [x, 'o', str(BANG), x, 'o', x],
    ]
    if tier == 'thorough':
        T += [[x, 'o', x, 'o', x, 'o', x, 'o', x], [str(IF), x, 'o', x, str(THEN), x, 'o', x, str(ELSE), x, 'o', x, 'o', x]]
    for i, t in enumerate(T):
        # split the first symbolic operator over cases for parallelism
        j = t.index('o')
        for op in range(23):
            opk = [4, 5, 6, 7, 8, 9, 10, 11, 12, 13, 14, 15, 16, 17, 18, 19, 20, 21, 22, 23, 24, 25, 27][op]
            tt = list(t); tt[j] = str(opk)
            cases.append({'id': 'tmpl%d-op%d' % (i, opk), 'label': 'template %s' % ' '.join(tt), 'cfg': {0: ' '.join(tt)}})
    from . import common
    return [common.tokenizer_job(tier), literal_job(tier, rnd), {'entry': 'h_c10_parse', 'cases': cases, 'opts': {'mode': 'replay', 'max_paths': 200000, 'instr_budget': 50_000_000},
             'expect_covers': ['c10-real-parser-finished', 'c10-reference-finished', 'c10-both-accept', 'c10-both-reject'], 'selftest_inputs': _inputs}]

def literal_job(tier, rnd):
    """values of hexadecimal / octal / binary literals: digits symbolic within a class per position"""
    cases = []
    def add(base, cls):
        cases.append({'id': 'lit-b%d-%s' % (base, cls), 'label': 'base %d literal, positions %s' % (base, cls), 'cfg': {0: str(base), 1: cls}})
    hexlens = [1, 8, 14, 15, 16, 17, 32] if tier == 'quick' else list(range(1, 33))
    for n in hexlens:
        add(16, 'd' * n)
        add(16, ''.join(rnd.choice('dlU') for _ in range(n)))
        if tier == 'thorough':
            add(16, 'l' * n); add(16, 'U' * n)
            add(16, ''.join(rnd.choice('dlU') for _ in range(n)))
    add(16, 'dl_Ud'); add(16, 'd_d_d_d_d_d_d_d_d_d_d_d_d_d_d_d')
    for n in ([3, 18, 19] if tier == 'quick' else list(range(1, 43))):
        add(8, 'o' * n)
    add(8, 'b' + 'o' * 42); add(8, 't' + 'o' * 42)
    add(8, 'o_oo_ooo')
    for n in ([8, 54, 55, 64, 128] if tier == 'quick' else [1, 2, 8, 16, 32, 52, 53, 54, 55, 56, 63, 64, 65, 100, 126, 127, 128]):
        add(2, 'b' * n)
    add(2, 'b_bbbb_bbbb')
    return {'entry': 'h_c10_literal', 'cases': cases, 'opts': {'mode': 'replay', 'max_paths': 2000, 'instr_budget': 50_000_000, 'query_timeout_ms': 60000},
            'expect_covers': ['c10-literal-parsed', 'c10-literal-accepted', 'c10-literal-rejected'],
            'selftest_inputs': lambda r, case: {'u%d' % i: {'d': r.randrange(48, 58), 'l': r.randrange(97, 103), 'U': r.randrange(65, 71), 'o': r.randrange(48, 56), 'b': r.randrange(48, 50), 't': r.randrange(50, 52), '_': 0}[c] for i, c in enumerate(case['cfg'][1])}}

def classify(v, case): return None
