"""C10 — parsing follows the documented grammar and precedence table."""
LEVEL = 'model_checking'
LIMITS = {'max_unsupported': 0, 'max_undecided_frac': 0.01}
OUTSIDE = ['token sequences longer than the exhaustive bound that do not match one of the listed templates',
           'statements other than a single expression; struct instantiation `Name { … }`, string interpolation, newlines inside expressions, number / identifier lexing (every Number is the literal 1, every Identifier is x: the tree shape does not depend on the lexeme) — the mapping from characters to token kinds is the subject of the tokenizer kernel of C08',
           'the reference treats `*` and `/` (and `+` and `-`) as one left-associative level each, as ordinary arithmetic does; operations.md lists them on separate rows']
ASSUMPTIONS = ['the reference parser (harness/src/h_parse.rs: precedence climbing over the operator table transcribed from book/src/basics/operations.md, plus the primary / call / list forms) is the specification; details on which the documentation is silent follow the behaviour of the unchanged tree and are listed in DESIGN.md',
               'token kinds are symbolic over an alphabet of 37 expression-level kinds (all operators in the table, brackets, keywords if/then/else/per/to, literals, `=` as a representative foreign token)']

K = 37
NUM, ID, LP, RP, PLUS, MINUS, MUL, DIV, POW, PER, ARROW, TO, PIPE, UEXP, BANG = range(15)
IF, THEN, ELSE = 23, 24, 25

def bounds(tier):
    n = 3 if tier == 'quick' else 4
    return {'tokenizer': 'operator spellings: every string of 1..2 (thorough: 3) characters over operators / brackets / whitespace / digits and 14 Unicode operator characters must tokenize exactly as the documented spelling table says, or be rejected',
            'exhaustive_sequences': 'every sequence of 1..%d tokens over the 37-kind alphabet (first token fixed per case, the rest symbolic)' % n,
            'templates': 'longer sequences with operands fixed and 2-3 operator positions symbolic over the 23 operators: x o x o x, x o x o x o x, - x o x o x, x o - x o x, x o x o x !, if x o x then x o x else x o x, if x then x else x o x o x, x o x o x o x with parentheses variants'}

def exhaustive(tier): return False

def _inputs(rnd, case):
    return {'u%d' % i: rnd.randrange(0, 23) for i in range(12)}

def plan(tier, rnd, units):
    n = 3 if tier == 'quick' else 4
    cases = []
    for L in range(1, n + 1):
        for first in range(K):
            if L >= 4:
                # split by the first two tokens for load balancing
                for second in range(K):
                    pat = ' '.join([str(first), str(second)] + ['s'] * (L - 2))
                    cases.append({'id': 'len%d-first%d-%d' % (L, first, second), 'label': 'all sequences of %d tokens starting with kinds %d %d' % (L, first, second), 'cfg': {0: pat}})
                continue
            pat = ' '.join([str(first)] + ['s'] * (L - 1))
            cases.append({'id': 'len%d-first%d' % (L, first), 'label': 'all sequences of %d tokens starting with kind %d' % (L, first), 'cfg': {0: pat}})
    x = str(ID); n1 = str(NUM)
    T = [
        [x, 'o', x, 'o', x], [n1, 'o', x, 'o', n1], [str(MINUS), x, 'o', x, 'o', x], [x, 'o', str(MINUS), x, 'o', x], [x, 'o', x, 'o', x, str(BANG)],
        [x, 'o', x, str(UEXP), 'o', x], [x, 'o', x, x, 'o', x], [n1, x, 'o', n1, x], [x, 'o', x, 'o', x, 'o', x],
        [str(IF), x, 'o', x, str(THEN), x, str(ELSE), x, 'o', x], [str(IF), x, str(THEN), x, 'o', x, str(ELSE), x, 'o', x],
        [str(IF), x, str(THEN), x, str(ELSE), x, 'o', x, 'o', x], [x, 'o', str(LP), x, 'o', x, str(RP), 'o', x], [x, str(LP), x, 'o', x, str(RP), 'o', x],
        [str(BANG), x, 'o', x, 'o', x], [x, 'o', str(BANG), x, 'o', x],
    ]
    if tier == 'thorough':
        T += [[x, 'o', x, 'o', x, 'o', x, 'o', x], [str(IF), x, 'o', x, str(THEN), x, 'o', x, str(ELSE), x, 'o', x, 'o', x]]
    for i, t in enumerate(T):
        # split the first symbolic operator over cases for parallelism
        j = t.index('o')
        for op in range(23):
            opk = [4, 5, 6, 7, 8, 9, 10, 11, 12, 13, 14, 15, 16, 17, 18, 19, 20, 21, 22, 23, 24, 25, 27][op]
            tt = list(t); tt[j] = str(opk)
            cases.append({'id': 'tmpl%d-op%d' % (i, opk), 'label': 'template %s' % ' '.join(tt), 'cfg': {0: ' '.join(tt)}})
    from . import common
    return [common.tokenizer_job(tier), {'entry': 'h_c10_parse', 'cases': cases, 'opts': {'mode': 'replay', 'max_paths': 200000, 'instr_budget': 50_000_000},
             'expect_covers': ['c10-real-parser-finished', 'c10-reference-finished', 'c10-both-accept', 'c10-both-reject'], 'selftest_inputs': _inputs}]

def classify(v, case): return None
