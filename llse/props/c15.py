"""C15 (partial) — the echoed form of an input means the same as the input: string literals and expression statements."""
LEVEL = 'model_checking'
LIMITS = {'max_unsupported': 0, 'max_undecided_frac': 0.01}
OUTSIDE = ['definitions (let / fn / unit / dimension / struct), decorators (the `@name("Foo bar")` echo defect named in the property text is a single concrete input and NOT found here), signatures, where-clauses, interpolated strings, temperature sugar',
           'expression statements longer than the exhaustive bound that do not match one of the templates; operands other than the literal 2 and one identifier per case family (the scalar variable x = 3; the unit meter; the prefixed short name km; the variable y = 3 meter; the function f)',
           'strings longer than the bound; non-ASCII characters (they are copied through unchanged by both directions); strings with interpolations']
ASSUMPTIONS = ['characters are symbolic over the 14-character alphabet  " \\ { } n r t 0 a space LF CR TAB NUL  — every character that escape_numbat_string or the parser\'s unescaping distinguishes, the letters used in escapes, and ordinary characters']

ALPHA = [34, 92, 123, 125, 110, 114, 116, 48, 97, 32, 10, 13, 9, 0]

def bounds(tier):
    return {'expressions': 'five families (the Identifier token is the scalar x = 3, the unit meter, km, the variable y = 3 meter, or the function f): every token sequence of 1..%d tokens (other families: one token fewer) over the 37-kind expression alphabet of C10 that the real parser and checker accept (first token fixed per case, the rest symbolic), plus operator templates (x o x o x, - x o x o x, x o x o x !, ( x o x ) o x …) with the operator positions symbolic over the 23 operators' % (3 if tier == 'quick' else 4),
            'strings': 'every string of 0..%d characters over the 14-character alphabet' % (3 if tier == 'quick' else 5)}

def exhaustive(tier): return False

def _inputs(rnd, case):
    c = {'u%d' % i: rnd.choice(ALPHA) for i in range(6)}
    if 1 in case['cfg']: c['u0'] = int(case['cfg'][1])
    return c

def plan(tier, rnd, units):
    n = 3 if tier == 'quick' else 5
    cases = [{'id': 'len%d' % k, 'label': 'strings of %d characters' % k, 'cfg': {0: str(k)}} for k in range(0, 3)]
    for k in range(3, n + 1):
        for a in ALPHA:
            cases.append({'id': 'len%d-first%d' % (k, a), 'label': 'strings of %d characters starting with code %d' % (k, a), 'cfg': {0: str(k), 1: str(a)}})
    return [expr_job(tier), {'entry': 'h_c15_string', 'cases': cases, 'opts': {'mode': 'replay', 'max_paths': 1000000, 'instr_budget': 50_000_000},
             'expect_covers': ['c15-escaped', 'c15-read-back'], 'selftest_inputs': _inputs}]

UNIT_PRELUDE = ('dimension Scalar = 1\ndimension Length\n@metric_prefixes\n@aliases(m: short)\nunit meter: Length\n'
                'fn f(a: Scalar) -> Scalar = a + 1\nlet y = 3 meter\nlet x = 3\n')
# (family id, prelude or None, identifier lexeme or None, what the Identifier token stands for)
FAMILIES = [('x', None, None, 'the scalar variable x = 3'), ('meter', UNIT_PRELUDE, 'meter', 'the unit meter'), ('km', UNIT_PRELUDE, 'km', 'the prefixed short unit name km'),
            ('y', UNIT_PRELUDE, 'y', 'the variable y = 3 meter'), ('f', UNIT_PRELUDE, 'f', 'the function f(a: Scalar) -> Scalar')]

def expr_job(tier):
    from . import c10
    K = c10.K; x = str(c10.ID); n2 = str(c10.NUM)
    cases = []
    LP, RP, MINUS, BANG, UEXP = str(c10.LP), str(c10.RP), str(c10.MINUS), str(c10.BANG), str(c10.UEXP)
    T = [[x, 'o', n2, 'o', x], [MINUS, x, 'o', n2, 'o', x], [x, 'o', MINUS, n2, 'o', x], [x, 'o', n2, 'o', x, BANG], [x, 'o', x, BANG, 'o', n2],
         [LP, x, 'o', n2, RP, 'o', x], [x, 'o', LP, n2, 'o', x, RP], [LP, x, 'o', n2, RP, BANG], [LP, x, 'o', n2, RP, UEXP], [MINUS, LP, x, 'o', n2, RP, 'o', x],
         [x, 'o', x, UEXP, 'o', n2], [LP, MINUS, x, RP, 'o', n2, 'o', x], [x, 'o', n2, x, 'o', x]]
    if tier == 'thorough':
        T += [[x, 'o', n2, 'o', x, 'o', n2], [LP, x, 'o', n2, RP, 'o', LP, n2, 'o', x, RP], [LP, x, 'o', n2, 'o', x, RP, 'o', n2], [x, 'o', LP, n2, 'o', x, 'o', n2, RP]]
    OPK = [4, 5, 6, 7, 8, 9, 10, 11, 12, 13, 14, 15, 16, 17, 18, 19, 20, 21, 22, 23, 24, 25, 27]
    for fam, prelude, ident, what in FAMILIES:
        extra = {} if prelude is None else {1: prelude, 2: ident}
        # exhaustive length: the default family to 3 (thorough 4); the other families to 2 (thorough 3) plus f ( … ) call shapes
        n = (3 if tier == 'quick' else 4) if fam == 'x' else (2 if tier == 'quick' else 3)
        for L in range(1, n + 1):
            for first in range(K):
                if L >= 4:
                    for second in range(K):
                        cases.append({'id': 'e-%s-len%d-first%d-%d' % (fam, L, first, second), 'label': 'identifier = %s: all accepted expressions of %d tokens starting with kinds %d %d' % (what, L, first, second), 'cfg': {**{0: ' '.join([str(first), str(second)] + ['s'] * (L - 2))}, **extra}})
                    continue
                cases.append({'id': 'e-%s-len%d-first%d' % (fam, L, first), 'label': 'identifier = %s: all accepted expressions of %d tokens starting with kind %d' % (what, L, first), 'cfg': {**{0: ' '.join([str(first)] + ['s'] * (L - 1))}, **extra}})
        TT = list(T)
        if fam == 'f':
            TT = [[x, LP, n2, 'o', n2, RP], [x, LP, n2, RP, 'o', n2], [n2, 'o', x, LP, n2, RP], [x, LP, n2, RP, BANG, 'o', n2], [MINUS, x, LP, n2, RP, 'o', n2], [x, LP, x, LP, n2, RP, RP, 'o', n2], [n2, str(c10.PIPE), x, 'o', n2]]
        if tier == 'quick' and fam not in ('x', 'f'):
            TT = [TT[0], TT[3], TT[5], TT[8], TT[10], TT[12]]
        for i, t in enumerate(TT):
            j = t.index('o')
            for opk in OPK:
                tt = list(t); tt[j] = str(opk)
                cases.append({'id': 'e-%s-tmpl%d-op%d' % (fam, i, opk), 'label': 'identifier = %s: template %s' % (what, ' '.join(tt)), 'cfg': {**{0: ' '.join(tt)}, **extra}})
    # fixed sequences that exhibit the listed known finding (so that the quick tier reports it too)
    for i, pat in enumerate(['0 6 1 0', '33 6 1 0']):
        cases.append({'id': 'e-x-fixed%d' % i, 'label': 'fixed token sequence %s' % pat, 'cfg': {0: pat}})
    return {'entry': 'h_c15_expr', 'cases': cases, 'opts': {'mode': 'replay', 'max_paths': 200000, 'instr_budget': 400_000_000},
            'expect_covers': ['c15-expr-outside-grammar', 'c15-expr-accepted', 'c15-expr-echo-accepted'], 'selftest_inputs': c10._inputs}

def classify(v, case):
    """known finding (keyed by role): the echo of a right-nested product `n × (id × …)` is printed without
    parentheses, and its re-read form `(n × id) × …` is printed with the scalar-identifier fusion `n id × …`"""
    if v.get('tag') != 'echo-of-the-echo-is-the-same-text': return None
    import re
    obs = {}
    for o in (v.get('rec') or {}).get('obs', []):
        try: obs[o[0]] = bytes.fromhex(o[2]).decode()
        except Exception: pass
    a, b = obs.get('c15-echo'), obs.get('c15-echo-of-echo')
    if not a or not b: return None
    fuse = lambda t: re.sub(r'(\d|NaN|inf) × ([A-Za-z_])', r'\1 \2', t)
    if a != b and fuse(a) == fuse(b): return 'echo-refuses-product-after-reassociation'
    return None
