"""C15 (partial) — the echoed form of an input means the same as the input: string literals and expression statements."""
LEVEL = 'model_checking'
LIMITS = {'max_unsupported': 0, 'max_undecided_frac': 0.01}
OUTSIDE = ['definitions (let / fn / unit / dimension / struct), decorators (the `@name("Foo bar")` echo defect named in the property text is a single concrete input and NOT found here), signatures, where-clauses, interpolated strings, temperature sugar',
           'expression statements longer than the exhaustive bound that do not match one of the templates; operands other than the scalar variable x = 3 and the literal 2 (units with prefixes, function calls: x is not callable, so call syntax is rejected by the checker)',
           'strings longer than the bound; non-ASCII characters (they are copied through unchanged by both directions); strings with interpolations']
ASSUMPTIONS = ['characters are symbolic over the 14-character alphabet  " \\ { } n r t 0 a space LF CR TAB NUL  — every character that escape_numbat_string or the parser\'s unescaping distinguishes, the letters used in escapes, and ordinary characters']

ALPHA = [34, 92, 123, 125, 110, 114, 116, 48, 97, 32, 10, 13, 9, 0]

def bounds(tier):
    return {'expressions': 'every token sequence of 1..%d tokens over the 37-kind expression alphabet of C10 that the real parser and checker accept (first token fixed per case, the rest symbolic), plus the operator templates of C10 (x o x o x, - x o x o x, x o x o x !, ( x o x ) o x …) with the operator positions symbolic over the 23 operators' % (3 if tier == 'quick' else 4),
            'strings': 'every string of 0..%d characters over the 14-character alphabet' % (3 if tier == 'quick' else 5)}

def exhaustive(tier): return False

def _inputs(rnd, case):
    c = {'u%d' % i: rnd.choice(ALPHA) for i in range(6)}
    if 1 in case['cfg']: c['u0'] = int(case['cfg'][1])
    return c

def plan(tier, rnd, units):
    n = 3 if tier == 'quick' else 5
    cases = [{'id': 'len%d' % k, 'label': 'strings of %d characters' % k, 'cfg': {0: str(k)}} for k in range(0, 3)]
    for k in range(3, n + 1):
        for a in ALPHA:
            cases.append({'id': 'len%d-first%d' % (k, a), 'label': 'strings of %d characters starting with code %d' % (k, a), 'cfg': {0: str(k), 1: str(a)}})
    return [expr_job(tier), {'entry': 'h_c15_string', 'cases': cases, 'opts': {'mode': 'replay', 'max_paths': 1000000, 'instr_budget': 50_000_000},
             'expect_covers': ['c15-escaped', 'c15-read-back'], 'selftest_inputs': _inputs}]

def expr_job(tier):
    from . import c10
    K = c10.K; x = str(c10.ID); n2 = str(c10.NUM)
    n = 3 if tier == 'quick' else 4
    cases = []
    for L in range(1, n + 1):
        for first in range(K):
            if L >= 4:
                for second in range(K):
                    cases.append({'id': 'e-len%d-first%d-%d' % (L, first, second), 'label': 'all accepted expressions of %d tokens starting with kinds %d %d' % (L, first, second), 'cfg': {0: ' '.join([str(first), str(second)] + ['s'] * (L - 2))}})
                continue
            cases.append({'id': 'e-len%d-first%d' % (L, first), 'label': 'all accepted expressions of %d tokens starting with kind %d' % (L, first), 'cfg': {0: ' '.join([str(first)] + ['s'] * (L - 1))}})
    LP, RP, MINUS, BANG, UEXP = str(c10.LP), str(c10.RP), str(c10.MINUS), str(c10.BANG), str(c10.UEXP)
    T = [[x, 'o', n2, 'o', x], [MINUS, x, 'o', n2, 'o', x], [x, 'o', MINUS, n2, 'o', x], [x, 'o', n2, 'o', x, BANG], [x, 'o', x, BANG, 'o', n2],
         [LP, x, 'o', n2, RP, 'o', x], [x, 'o', LP, n2, 'o', x, RP], [LP, x, 'o', n2, RP, BANG], [LP, x, 'o', n2, RP, UEXP], [MINUS, LP, x, 'o', n2, RP, 'o', x],
         [x, 'o', x, UEXP, 'o', n2], [LP, MINUS, x, RP, 'o', n2, 'o', x], [x, 'o', n2, x, 'o', x]]
    if tier == 'thorough':
        T += [[x, 'o', n2, 'o', x, 'o', n2], [LP, x, 'o', n2, RP, 'o', LP, n2, 'o', x, RP], [LP, x, 'o', n2, 'o', x, RP, 'o', n2], [x, 'o', LP, n2, 'o', x, 'o', n2, RP]]
    OPK = [4, 5, 6, 7, 8, 9, 10, 11, 12, 13, 14, 15, 16, 17, 18, 19, 20, 21, 22, 23, 24, 25, 27]
    for i, t in enumerate(T):
        j = t.index('o')
        for opk in OPK:
            tt = list(t); tt[j] = str(opk)
            cases.append({'id': 'e-tmpl%d-op%d' % (i, opk), 'label': 'template %s' % ' '.join(tt), 'cfg': {0: ' '.join(tt)}})
    return {'entry': 'h_c15_expr', 'cases': cases, 'opts': {'mode': 'replay', 'max_paths': 200000, 'instr_budget': 400_000_000},
            'expect_covers': ['c15-expr-outside-grammar', 'c15-expr-accepted', 'c15-expr-echo-accepted'], 'selftest_inputs': c10._inputs}

def classify(v, case): return None
