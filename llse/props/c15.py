"""C15 (partial) — the echoed form of an input means the same as the input: string literals."""
LEVEL = 'model_checking'
LIMITS = {'max_unsupported': 0, 'max_undecided_frac': 0.01}
OUTSIDE = ['everything in the property except string literals: statements, decorators (the `@name("Foo bar")` echo defect named in the property text is a single concrete input and NOT found here), signatures, operator parenthesisation — program structure has no symbolic value to range over',
           'strings longer than the bound; non-ASCII characters (they are copied through unchanged by both directions); strings with interpolations']
ASSUMPTIONS = ['characters are symbolic over the 14-character alphabet  " \\ { } n r t 0 a space LF CR TAB NUL  — every character that escape_numbat_string or the parser\'s unescaping distinguishes, the letters used in escapes, and ordinary characters']

ALPHA = [34, 92, 123, 125, 110, 114, 116, 48, 97, 32, 10, 13, 9, 0]

def bounds(tier):
    return {'strings': 'every string of 0..%d characters over the 14-character alphabet' % (3 if tier == 'quick' else 5)}

def exhaustive(tier): return True

def _inputs(rnd, case):
    c = {'u%d' % i: rnd.choice(ALPHA) for i in range(6)}
    if 1 in case['cfg']: c['u0'] = int(case['cfg'][1])
    return c

def plan(tier, rnd, units):
    n = 3 if tier == 'quick' else 5
    cases = [{'id': 'len%d' % k, 'label': 'strings of %d characters' % k, 'cfg': {0: str(k)}} for k in range(0, 3)]
    for k in range(3, n + 1):
        for a in ALPHA:
            cases.append({'id': 'len%d-first%d' % (k, a), 'label': 'strings of %d characters starting with code %d' % (k, a), 'cfg': {0: str(k), 1: str(a)}})
    return [{'entry': 'h_c15_string', 'cases': cases, 'opts': {'mode': 'replay', 'max_paths': 1000000, 'instr_budget': 50_000_000},
             'expect_covers': ['c15-escaped', 'c15-read-back'], 'selftest_inputs': _inputs}]

def classify(v, case): return None
