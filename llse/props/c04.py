"""C04 — conversion yields exactly the requested unit and the same quantity."""
import struct
from . import common

LEVEL = 'model_checking'
LIMITS = {'max_unsupported': 0, 'max_undecided_frac': 0.25}
OUTSIDE = ['"same physical quantity within tolerance" for general mantissas: a tolerance claim over a floating-point product and quotient is not decided by bit-blasting in any budget available here (probe Q2 in DESIGN.md); decided instead: the exact conversion of 1, of every power of two, the value class (NaN / zero / infinite / sign) for all doubles, idempotence and identity bit for bit',
           'compound target unit expressions (products, quotients, powers) — only single (possibly prefixed) standard-library units on either side, with a numeric multiple on the target side',
           'the rendered text itself (float formatting is not symbolically executable): decided are the fields the text is a function of — magnitude bits, unit structure, conversion-target marker']
ASSUMPTIONS = ['the expected conversion factor of each pair is computed by the plan from the units\' definition trees with exact rational arithmetic (python Fractions), independently of numbat\'s factor arithmetic; agreement of `1 u -> U` is required to 16 ulp (64 ulp via an intermediate unit)',
               'a ranges over all f64 bit patterns in the structural / value-class / idempotence assertions; the scaling assertion ranges over a = ±2^k, |k| <= 200']

def bounds(tier):
    return {'pairs': 'quick: 8 fixed + 5 compound (products / quotients / powers with metric and binary prefixes) + 6 seeded ordered pairs of same-dimension units (with prefixes, one target with magnitude 45); thorough: every unit converted to two seeded same-dimension partners',
            'symbolic_inputs': 'a: all doubles; scaling: sign and exponent of a power of two'}

def exhaustive(tier): return False

def f64bits(x): return '%016x' % struct.unpack('<Q', struct.pack('<d', x))[0]

def cases(tier, rnd, units):
    g = common.by_dimension(units)
    byname = {u['name']: u for u in units}
    out = []
    def add(u1, p1, u2, p2, t=None, mid=None):
        s1 = u1['spec'] if p1 is None else common.with_prefix(u1['spec'], *p1)
        s2 = u2['spec'] if p2 is None else common.with_prefix(u2['spec'], *p2)
        cfg = {0: s1, 1: s2}
        if t is not None: cfg[2] = f64bits(t)
        e1 = common.exact_size(u1['spec'], p1); e2 = common.exact_size(u2['spec'], p2)
        if e1 is not None and e2 is not None and e2 != 0:
            try: cfg[3] = f64bits(float(e1 / e2))
            except OverflowError: pass
        if mid is not None: cfg[4] = mid['spec']
        out.append({'id': 'c%d' % len(out), 'label': '%s -> %s%s' % (common.label(u1, p1), '' if t is None else '%g ' % t, common.label(u2, p2)), 'cfg': cfg})
    fixed = [('hour', None, 'minute', None, 45.0, 'second'), ('footcandle', None, 'lux', None, None, None), ('inch', None, 'metre', ('M', -2), None, 'foot'),
             ('metre', None, 'metre', ('M', 3), None, None), ('mile', None, 'metre', None, None, 'yard'), ('byte', ('I', 10), 'bit', None, None, None),
             ('degree', None, 'radian', None, None, None), ('poise', None, 'poise', ('M', -2), None, None)]
    for a, pa, b, pb, t, mid in fixed:
        if a in byname and b in byname: add(byname[a], pa, byname[b], pb, t, byname.get(mid) if mid else None)
    # compound units on both sides (products / quotients / powers with metric and binary prefixes)
    def fs(u, p, e):
        sp = byname[u]['spec'] if p is None else common.with_prefix(byname[u]['spec'], *p)
        t = sp.split(' '); t[8] = str(e); t[9] = '1'
        return ' '.join(t[1:-1])
    def compound(src, dst):
        if any(n not in byname for n, _, _ in src + dst): return
        s1 = '( ' + ' '.join(fs(*f) for f in src) + ' )'; s2 = '( ' + ' '.join(fs(*f) for f in dst) + ' )'
        cfg = {0: s1, 1: s2}
        e1 = common.exact_size(s1); e2 = common.exact_size(s2)
        if e1 is not None and e2 is not None and e2 != 0:
            try: cfg[3] = f64bits(float(e1 / e2))
            except OverflowError: pass
        out.append({'id': 'c%d' % len(out), 'label': 'compound %s -> %s' % (' '.join('%s^%d' % (common.label(byname[n], p), e) for n, p, e in src), ' '.join('%s^%d' % (common.label(byname[n], p), e) for n, p, e in dst)), 'cfg': cfg})
    compound([('second', None, 1), ('byte', ('I', 10), -1)], [('second', None, 1), ('byte', None, -1)])
    compound([('byte', ('I', 10), 2)], [('byte', None, 2)])
    compound([('byte', ('M', 3), 1), ('bit', ('M', 6), -1)], [('byte', ('M', 6), 1), ('bit', ('M', 3), -1)])
    compound([('metre', ('M', 3), 1), ('hour', None, -1)], [('metre', None, 1), ('second', None, -1)])
    compound([('joule', None, 1), ('byte', ('I', 30), -1)], [('joule', ('M', 3), 1), ('byte', ('I', 20), -1)])
    multi = [v for v in g.values() if len(v) >= 2]
    for _ in range(6 if tier == 'quick' else 0):
        grp = rnd.choice(multi); u1, u2 = rnd.sample(grp, 2)
        p1 = rnd.choice([None] + common.prefixed_variants(u1)) if rnd.random() < 0.3 else None
        mid = rnd.choice(grp) if rnd.random() < 0.5 else None
        add(u1, p1, u2, None, None, mid)
    if tier == 'thorough':
        for grp in multi:
            for u1 in grp:
                for u2 in rnd.sample([x for x in grp if x is not u1], min(2, len(grp) - 1)):
                    add(u1, None, u2, None, rnd.choice([None, None, 3.0]), rnd.choice(grp))
    return out

def _inputs(rnd, case):
    import struct as st
    c = {'f0': st.unpack('<Q', st.pack('<d', rnd.choice([0.0, 1.0, -2.5, 1e10, 3.0, float('inf'), 1e-300])))[0]}
    c['u5'] = rnd.randrange(1023 - 50, 1023 + 50); c['u6'] = rnd.randrange(0, 2)
    return c

def plan(tier, rnd, units):
    cs = cases(tier, rnd, units)
    import copy
    to = 20000 if tier == 'quick' else 60000
    sc = [c for c in copy.deepcopy(cs)][: (6 if tier == 'quick' else 40)]
    return [
        {'entry': 'h_c04_convert', 'cases': cs, 'opts': {'query_timeout_ms': to, 'max_paths': 300, 'mode': 'fork'}, 'expect_covers': ['c04-converted'], 'selftest_inputs': _inputs},
        {'entry': 'h_c04_scaling', 'cases': sc, 'opts': {'query_timeout_ms': to, 'max_paths': 300, 'mode': 'fork'}, 'expect_covers': ['c04-scaling-evaluated'], 'selftest_inputs': _inputs},
    ]

def classify(v, case): return None
