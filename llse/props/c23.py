"""C23 (partial) — standard-library inverse conversions round-trip: temperature scales."""
LEVEL = 'model_checking'
LIMITS = {'max_unsupported': 0, 'max_undecided_frac': 0.5}
OUTSIDE = ['every inverse pair except the temperature scales: trigonometric / hyperbolic / exponential / logarithmic pairs (libm on symbolic arguments is not executable), Unix time and Julian dates (jiff calendar arithmetic), mixed-unit splitting (floor / mod loops with a symbolic trip count)',
           'temperatures outside |x| <= 10^6; the Fahrenheit tolerance involves a multiplication and a division by 5/9 and may stay undecided within the query budget (counted, never reported as held)']
ASSUMPTIONS = ['the real module physics::temperature_conversion (with units::si) is imported into a real session; x is a symbolic double with |x| <= 10^6; tolerance 1e-9 (Celsius: two additions with rounding error <= 2.4e-10) / 1e-8 (Fahrenheit)']

def bounds(tier):
    return {'scales': 'Celsius' + (' and Fahrenheit' if tier == 'thorough' else ' (Fahrenheit in the thorough tier)'), 'symbolic_inputs': 'x: all doubles with |x| <= 10^6', 'units': 'absolute temperatures written in kelvin and in millikelvin (thorough: also kilokelvin, microkelvin)'}

def exhaustive(tier): return False

PRE = 'use physics::temperature_conversion\nfn __verif_sym(i: Scalar) -> Scalar\n'

def _inputs(rnd, case):
    import struct as st
    return {'f0': st.unpack('<Q', st.pack('<d', rnd.choice([0.0, 25.0, -40.0, 300.5, 1e6, -273.15])))[0]}

def plan(tier, rnd, units):
    scales = ['celsius'] + (['fahrenheit'] if tier == 'thorough' else [])
    cases = [{'id': sc, 'label': '%s <-> kelvin' % sc, 'cfg': {0: PRE, 1: sc}} for sc in scales]
    for sc in scales:
        for u in ['millikelvin'] + (['kilokelvin', 'microkelvin'] if tier == 'thorough' else []):
            cases.append({'id': '%s-%s' % (sc, u), 'label': '%s -> %s -> kelvin for temperatures written in %s' % (u, sc, u), 'cfg': {0: PRE, 1: sc, 2: u}})
    to = 120000 if tier == 'quick' else 300000
    return [{'entry': 'h_c23_temperature', 'cases': cases, 'opts': {'mode': 'fork', 'per_case_setup': True, 'max_paths': 100, 'instr_budget': 2_000_000_000, 'query_timeout_ms': to},
             'expect_covers': ['c23-round-trip-evaluated'], 'selftest_inputs': _inputs, 'selftest_runs': 1}]

def classify(v, case): return None
