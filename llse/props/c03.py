"""C03 — quantity arithmetic agrees with dimensional analysis of the unit definitions."""
import struct
from fractions import Fraction
from . import common

LEVEL = 'model_checking'
LIMITS = {'max_unsupported': 0, 'max_undecided_frac': 0.3}
OUTSIDE = ['"equal up to floating-point rounding" for general mantissas (not decidable by bit-blasting in budget): decided are the exact dimension of every result, the value class for all doubles (NaN propagation, no NaN from finite operands, sign, zero shortcuts) and the base-unit value for magnitudes 1 against exact rational arithmetic on the definition trees (32 ulp)',
           'expression trees deeper than one operator; unit pairs not selected by the plan; powers with a symbolic base (powf on a symbolic double is not executable) — power cases use concrete bases',
           'non-integer powers']
ASSUMPTIONS = ['operands are single (possibly prefixed) standard-library units times a magnitude, combined by one VM operator (Add, Subtract, Multiply, Divide, Power)',
               'expected dimensions and values are computed by the plan from the definition trees alone with exact rational arithmetic']

def bounds(tier):
    return {'cases': 'quick: 10 fixed + 10 seeded (operator, unit, unit) triples incl. extreme metric and binary prefixes; thorough: every unit in one product, one quotient and one sum with seeded partners',
            'symbolic_inputs': 'a, b: all doubles (powers: concrete base)'}

def exhaustive(tier): return False

def f64bits(x): return '%016x' % struct.unpack('<Q', struct.pack('<d', x))[0]

def dimvec(u):
    return {n: Fraction(a, b) for n, a, b in u['dim']}

def dimstr(d):
    return ','.join('%s:%d/%d' % (n, f.numerator, f.denominator) for n, f in sorted(d.items()) if f != 0)

def cases(tier, rnd, units):
    g = common.by_dimension(units)
    byname = {u['name']: u for u in units}
    out = []
    def add(op, u1, p1, u2, p2, k=None, base=None):
        s1 = u1['spec'] if p1 is None else common.with_prefix(u1['spec'], *p1)
        s2 = u2['spec'] if p2 is None else common.with_prefix(u2['spec'], *p2)
        e1 = common.exact_size(u1['spec'], p1); e2 = common.exact_size(u2['spec'], p2)
        d1, d2 = dimvec(u1), dimvec(u2)
        cfg = {0: op, 1: s1, 2: s2}
        if op == 'mul': d = {n: d1.get(n, 0) + d2.get(n, 0) for n in set(d1) | set(d2)}; val = None if e1 is None or e2 is None else e1 * e2
        elif op == 'div': d = {n: d1.get(n, 0) - d2.get(n, 0) for n in set(d1) | set(d2)}; val = None if e1 is None or e2 is None else e1 / e2
        elif op == 'add': d = d1; val = None if e1 is None or e2 is None else e1 + e2
        elif op == 'sub': d = d1; val = None if e1 is None or e2 is None or e1 == e2 else e1 - e2
        else:
            d = {n: f * k for n, f in d1.items()}
            b = Fraction(base)
            val = None if e1 is None else (b * e1) ** k
            cfg[5] = str(k); cfg[6] = repr(float(base))
        cfg[4] = dimstr(d)
        if val is not None:
            try: cfg[3] = f64bits(float(val))
            except (OverflowError, ZeroDivisionError): pass
        out.append({'id': 'a%d' % len(out), 'label': '%s %s %s%s' % (common.label(u1, p1), op, common.label(u2, p2), '' if k is None else ' ^%s' % k), 'cfg': cfg})
    sc = {'name': 'scalar', 'spec': '( )', 'dim': [], 'metric': False, 'binary': False}
    fixed = [('mul', 'newton', None, 'metre', None), ('div', 'joule', None, 'second', ('M', -3)), ('add', 'inch', None, 'metre', ('M', -2)), ('sub', 'mile', None, 'yard', None),
             ('mul', 'byte', ('I', 70), 'hertz', None), ('add', 'byte', ('I', 80), 'byte', ('I', 70)), ('div', 'gram', ('M', 30), 'gram', ('M', -30)),
             ('mul', 'footcandle', None, 'foot', None), ('div', 'poise', None, 'second', None), ('add', 'degree', None, 'radian', None)]
    for op, a, pa, b, pb in fixed:
        if a in byname and b in byname: add(op, byname[a], pa, byname[b], pb)
    add('pow', sc, None, sc, None, 4294967296, -1)
    add('pow', byname['metre'], None, sc, None, 3, 2)
    add('pow', byname['inch'], None, sc, None, -2, 1)
    add('pow', byname['footcandle'], None, sc, None, 2, 3)
    allu = list(units)
    multi = [v for v in g.values() if len(v) >= 2]
    for _ in range(10 if tier == 'quick' else 0):
        op = rnd.choice(['mul', 'div', 'add', 'sub'])
        if op in ('add', 'sub'):
            grp = rnd.choice(multi); u1, u2 = rnd.sample(grp, 2)
        else:
            u1, u2 = rnd.choice(allu), rnd.choice(allu)
        p1 = rnd.choice([None] + common.prefixed_variants(u1)) if rnd.random() < 0.4 else None
        p2 = rnd.choice([None] + common.prefixed_variants(u2)) if rnd.random() < 0.4 else None
        add(op, u1, p1, u2, p2)
    if tier == 'thorough':
        for u1 in allu:
            u2 = rnd.choice(allu); add('mul', u1, rnd.choice([None] + common.prefixed_variants(u1)), u2, None)
            u2 = rnd.choice(allu); add('div', u1, None, u2, rnd.choice([None] + common.prefixed_variants(u2)))
            same = [x for x in g[common.dimkey(u1)] if x is not u1]
            if same: add(rnd.choice(['add', 'sub']), u1, None, rnd.choice(same), None)
    return out

def _inputs(rnd, case):
    import struct as st
    return {'f0': st.unpack('<Q', st.pack('<d', rnd.choice([0.0, 1.0, -2.5, 1e10, 3.0])))[0], 'f1': st.unpack('<Q', st.pack('<d', rnd.choice([0.0, 1.0, 4.0, -7.25])))[0]}

def plan(tier, rnd, units):
    to = 20000 if tier == 'quick' else 60000
    return [{'entry': 'h_c03_arith', 'cases': cases(tier, rnd, units), 'opts': {'query_timeout_ms': to, 'max_paths': 300, 'mode': 'fork'}, 'expect_covers': ['c03-evaluated'], 'selftest_inputs': _inputs, 'panic_is_violation': True}]

def classify(v, case): return None
