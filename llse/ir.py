#!/usr/bin/env python3
"""LLSE spike: a small LLVM-IR (text) symbolic executor. Concrete heap, symbolic scalars (z3)."""
import re, sys, struct, math, time, bisect, ctypes
# transparent huge pages make every copy-on-write fault after fork() copy 2 MB: switch them off for this process tree
try: ctypes.CDLL(None).prctl(41, 1, 0, 0, 0)   # PR_SET_THP_DISABLE
except Exception: pass
import z3

sys.setrecursionlimit(100000)

# ----------------------------------------------------------------------------- tokenizer
TOK = re.compile(r'''
   (?P<ws>\s+)
 | (?P<cstr>c"(?:[^"\\]|\\[0-9A-Fa-f]{2}|\\\\)*")
 | (?P<gid>@(?:"[^"]*"|[\w.$\-]+))
 | (?P<lid>%(?:"[^"]*"|[\w.$\-]+))
 | (?P<meta>![\w.\-]*(?:\([^)]*\))?)
 | (?P<attr>\#\d+)
 | (?P<hexf>0x[KLMHR]?[0-9A-Fa-f]+)
 | (?P<num>-?\d+\.\d*(?:[eE][+-]?\d+)?|-?\d+)
 | (?P<str>"[^"]*")
 | (?P<word>[A-Za-z_][\w.]*)
 | (?P<dots>\.\.\.)
 | (?P<p>[()\[\]{}<>,=*:])
''', re.X)

def tokenize(s):
    out = []
    pos = 0
    n = len(s)
    while pos < n:
        if s[pos] == ';':
            break
        m = TOK.match(s, pos)
        if not m:
            raise SyntaxError('lex error at %r' % s[pos:pos+40])
        pos = m.end()
        k = m.lastgroup
        if k == 'ws':
            continue
        out.append((k, m.group()))
    return out

# ----------------------------------------------------------------------------- types
class T:
    __slots__ = ('k', 'bits', 'n', 'el', 'fields', 'packed', 'name', '_size', '_align', '_offs')
    def __init__(s, k, **kw):
        s.k = k; s.bits = kw.get('bits'); s.n = kw.get('n'); s.el = kw.get('el')
        s.fields = kw.get('fields'); s.packed = kw.get('packed', False); s.name = kw.get('name')
        s._size = None; s._align = None; s._offs = None
    def __repr__(s):
        if s.k == 'int': return 'i%d' % s.bits
        if s.k in ('ptr', 'double', 'float', 'void', 'label', 'metadata', 'half', 'token'): return s.k
        if s.k == 'array': return '[%d x %r]' % (s.n, s.el)
        if s.k == 'vector': return '<%d x %r>' % (s.n, s.el)
        if s.k == 'struct': return '{%s}' % ', '.join(map(repr, s.fields))
        if s.k == 'named': return s.name
        return s.k

PTR = T('ptr'); DOUBLE = T('double'); FLOAT = T('float'); VOID = T('void'); LABEL = T('label'); META = T('metadata')
_ints = {}
def INT(b):
    t = _ints.get(b)
    if t is None:
        t = _ints[b] = T('int', bits=b)
    return t
I1 = INT(1); I8 = INT(8); I32 = INT(32); I64 = INT(64)

class Module:
    pass

class TypeCtx:
    def __init__(s):
        s.named = {}
    def resolve(s, t):
        while t.k == 'named':
            t = s.named[t.name]
        return t
    def size(s, t):
        t = s.resolve(t)
        if t._size is None: s._layout(t)
        return t._size
    def align(s, t):
        t = s.resolve(t)
        if t._align is None: s._layout(t)
        return t._align
    def offsets(s, t):
        t = s.resolve(t)
        if t._size is None: s._layout(t)
        return t._offs
    def _layout(s, t):
        k = t.k
        if k == 'int':
            b = t.bits
            sz = (b + 7) // 8
            if sz <= 1: t._size, t._align = 1, 1
            elif sz <= 2: t._size, t._align = 2, 2
            elif sz <= 4: t._size, t._align = 4, 4
            elif sz <= 8: t._size, t._align = 8, 8
            else: t._size, t._align = ((sz + 15) // 16) * 16, 16
        elif k == 'ptr': t._size, t._align = 8, 8
        elif k == 'double': t._size, t._align = 8, 8
        elif k == 'float': t._size, t._align = 4, 4
        elif k == 'half': t._size, t._align = 2, 2
        elif k == 'array':
            es = s.size(t.el); t._size = es * t.n; t._align = s.align(t.el)
        elif k == 'vector':
            es = s.size(t.el)
            if s.resolve(t.el).k == 'int' and s.resolve(t.el).bits == 1:
                t._size = (t.n + 7) // 8
            else:
                t._size = es * t.n
            a = 1
            while a < t._size: a *= 2
            t._align = a
        elif k == 'struct':
            off = 0; al = 1; offs = []
            for f in t.fields:
                fa = 1 if t.packed else s.align(f)
                off = (off + fa - 1) // fa * fa
                offs.append(off)
                off += s.size(f)
                al = max(al, fa)
            t._offs = offs
            t._size = (off + al - 1) // al * al
            t._align = al
        else:
            raise NotImplementedError('layout of %r' % t)

class P:
    """token stream parser"""
    def __init__(s, toks, tc):
        s.t = toks; s.i = 0; s.tc = tc
    def peek(s, o=0):
        j = s.i + o
        return s.t[j] if j < len(s.t) else ('eof', '')
    def next(s):
        x = s.t[s.i]; s.i += 1; return x
    def accept(s, v):
        if s.i < len(s.t) and s.t[s.i][1] == v:
            s.i += 1; return True
        return False
    def expect(s, v):
        x = s.next()
        if x[1] != v: raise SyntaxError('expected %r got %r (at %d in %r)' % (v, x, s.i, ' '.join(t[1] for t in s.t[:60])))
    def at_end(s): return s.i >= len(s.t)

    def type(s):
        k, v = s.next()
        if k == 'word':
            if v[0] == 'i' and v[1:].isdigit(): t = INT(int(v[1:]))
            elif v == 'ptr': t = PTR
            elif v == 'double': t = DOUBLE
            elif v == 'float': t = FLOAT
            elif v == 'void': t = VOID
            elif v == 'label': t = LABEL
            elif v == 'metadata': t = META
            elif v == 'half': t = T('half')
            elif v == 'token': t = T('token')
            elif v == 'opaque': t = T('struct', fields=[])
            else: raise SyntaxError('type? %r' % v)
        elif k == 'lid':
            t = T('named', name=v)
        elif v == '[':
            n = int(s.next()[1]); s.expect('x'); el = s.type(); s.expect(']')
            t = T('array', n=n, el=el)
        elif v == '{':
            fs = []
            if not s.accept('}'):
                while True:
                    fs.append(s.type())
                    if s.accept('}'): break
                    s.expect(',')
            t = T('struct', fields=fs)
        elif v == '<':
            if s.accept('{'):
                fs = []
                if not s.accept('}'):
                    while True:
                        fs.append(s.type())
                        if s.accept('}'): break
                        s.expect(',')
                s.expect('>')
                t = T('struct', fields=fs, packed=True)
            else:
                n = int(s.next()[1]); s.expect('x'); el = s.type(); s.expect('>')
                t = T('vector', n=n, el=el)
        else:
            raise SyntaxError('type? %r %r' % (k, v))
        # function type suffix: T (args)
        if s.peek()[1] == '(' and t.k != 'named_nofn':
            # only in call fnty position; parse and wrap
            save = s.i
            try:
                s.next()
                while not s.accept(')'):
                    if s.accept('...'): continue
                    s.type(); s.accept(',')
                t = T('fn', el=t)
            except SyntaxError:
                s.i = save
        while s.accept('*'):
            t = PTR
        return t

PARAM_ATTRS = {'noundef', 'nonnull', 'noalias', 'readonly', 'readnone', 'writeonly', 'nocapture', 'signext', 'zeroext',
               'inreg', 'returned', 'nofree', 'immarg', 'nest', 'swiftself', 'swifterror', 'dead_on_unwind', 'writable',
               'initializes', 'range', 'nofpclass', 'dead_on_return', 'allocalign', 'allocptr', 'noext', 'inrange', 'nocapture'}
PAREN_ATTRS = {'align', 'dereferenceable', 'dereferenceable_or_null', 'sret', 'byval', 'captures', 'initializes', 'range',
               'nofpclass', 'byref', 'inalloca', 'preallocated', 'elementtype', 'memory'}

def skip_param_attrs(p):
    while True:
        k, v = p.peek()
        if k != 'word': return
        if v == 'align':
            p.next()
            if p.peek()[1] == '(':
                skip_parens(p)
            else:
                p.next()
            continue
        if v in PAREN_ATTRS:
            p.next()
            if p.peek()[1] == '(':
                skip_parens(p)
            continue
        if v in PARAM_ATTRS:
            p.next(); continue
        return

def skip_parens(p):
    p.expect('(')
    d = 1
    while d:
        v = p.next()[1]
        if v == '(': d += 1
        elif v == ')': d -= 1

# ----------------------------------------------------------------------------- constants / operands
# operand encodings: ('c', value) constant python value; ('l', idx) local register; ('g', name) global address; ('ce', fn) const-expr thunk
class Undef:
    def __repr__(s): return 'undef'
UNDEF = Undef()

def parse_float_lit(k, v, t):
    if k == 'hexf':
        if v[2] in 'KLMHR':
            raise NotImplementedError('fp80 etc')
        bits = int(v, 16)
        d = struct.unpack('<d', struct.pack('<Q', bits))[0]
        return d
    return float(v)

class FnParser:
    """parses operands within a function, mapping local names to register indexes"""
    def __init__(s, mod, regmap):
        s.mod = mod; s.regmap = regmap; s.tc = mod.tc

    def reg(s, name):
        r = s.regmap.get(name)
        if r is None:
            r = s.regmap[name] = len(s.regmap)
        return r

    def value(s, p, t):
        """parse a value of type t; returns operand"""
        tc = s.tc
        rt = tc.resolve(t)
        k, v = p.next()
        if k == 'lid': return ('l', s.reg(v))
        if k == 'gid': return ('g', v)
        if k == 'num' or k == 'hexf':
            if rt.k == 'int':
                return ('c', int(v) & ((1 << rt.bits) - 1))
            if rt.k in ('double', 'float'):
                return ('c', parse_float_lit(k, v, rt))
            raise SyntaxError('num for type %r' % rt)
        if k == 'word':
            if v == 'true': return ('c', 1)
            if v == 'false': return ('c', 0)
            if v == 'null': return ('c', 0)
            if v in ('undef', 'poison'): return ('c', s.zero(rt))
            if v == 'zeroinitializer': return ('c', s.zero(rt))
            if v == 'splat':
                p.expect('('); et = p.type(); e = s.value(p, et); p.expect(')')
                return ('agg', [e] * rt.n)
            if v in ('getelementptr', 'inttoptr', 'ptrtoint', 'bitcast', 'add', 'sub', 'trunc', 'addrspacecast', 'xor', 'and', 'or', 'shl', 'mul'):
                return s.constexpr(v, p)
            raise SyntaxError('value word %r' % v)
        if k == 'cstr':
            return ('c', list(decode_cstr(v)))
        if v == '{' or v == '[' or v == '<':
            close = {'{': '}', '[': ']', '<': '>'}[v]
            packed = False
            if v == '<' and p.peek()[1] == '{':
                p.next(); packed = True; close = '}'
            elems = []
            if not p.accept(close):
                while True:
                    et = p.type(); elems.append(s.value(p, et))
                    if p.accept(close): break
                    p.expect(',')
            if packed: p.expect('>')
            return ('agg', elems)
        raise SyntaxError('value? %r %r' % (k, v))

    def zero(s, rt):
        rt = s.tc.resolve(rt)
        if rt.k in ('int', 'ptr'): return 0
        if rt.k in ('double', 'float'): return 0.0
        if rt.k == 'array' or rt.k == 'vector': return [s.zero(rt.el) for _ in range(rt.n)]
        if rt.k == 'struct': return [s.zero(f) for f in rt.fields]
        raise NotImplementedError('zero %r' % rt)

    def constexpr(s, op, p):
        if op == 'getelementptr':
            while p.peek()[1] in ('inbounds', 'nuw', 'nusw', 'inrange'):
                if p.next()[1] == 'inrange': skip_parens(p)
            p.expect('(')
            bt = p.type(); p.expect(',')
            pt = p.type(); base = s.value(p, pt)
            idx = []
            while p.accept(','):
                it = p.type(); idx.append(s.value(p, it))
            p.expect(')')
            return ('gep', bt, base, idx)
        if op in ('inttoptr', 'ptrtoint', 'bitcast', 'trunc', 'addrspacecast'):
            p.expect('('); ft = p.type(); v = s.value(p, ft); p.expect('to'); tt = p.type(); p.expect(')')
            return ('cast', op, ft, v, tt)
        # binary const expr
        while p.peek()[1] in ('nuw', 'nsw'): p.next()
        p.expect('('); t1 = p.type(); a = s.value(p, t1); p.expect(','); t2 = p.type(); b = s.value(p, t2); p.expect(')')
        return ('bin', op, t1, a, b)

def decode_cstr(v):
    b = bytearray(); s = v[2:-1]; i = 0
    while i < len(s):
        c = s[i]
        if c == '\\':
            if s[i+1] == '\\': b.append(92); i += 2
            else: b.append(int(s[i+1:i+3], 16)); i += 3
        else:
            b.extend(c.encode('utf-8')); i += 1
    return bytes(b)

# ----------------------------------------------------------------------------- module loading
class Function:
    __slots__ = ('name', 'start', 'end', 'params', 'ret', 'blocks', 'nregs', 'parsed', 'header', 'code', 'labels', 'vararg', 'ispanic')

def load_module(path):
    mod = Module(); mod.tc = TypeCtx(); mod.funcs = {}; mod.globals_src = {}; mod.declares = set(); mod.aliases = {}
    with open(path) as f:
        lines = f.read().split('\n')
    mod.lines = lines
    i = 0; n = len(lines)
    while i < n:
        ln = lines[i]
        if ln.startswith('define'):
            j = i + 1
            while lines[j] != '}': j += 1
            m = re.search(r'(@(?:"[^"]*"|[\w.$\-]+))\s*\(', ln)
            fn = Function(); fn.name = m.group(1); fn.start = i; fn.end = j; fn.parsed = False
            mod.funcs[fn.name] = fn
            i = j + 1; continue
        if ln.startswith('declare'):
            m = re.search(r'(@(?:"[^"]*"|[\w.$\-]+))\s*\(', ln)
            mod.declares.add(m.group(1))
        elif ln.startswith('%'):
            toks = tokenize(ln); p = P(toks, mod.tc)
            name = p.next()[1]; p.expect('='); p.expect('type')
            mod.tc.named[name] = p.type()
        elif ln.startswith('@'):
            m = re.match(r'(@(?:"[^"]*"|[\w.$\-]+))\s*=', ln)
            mod.globals_src[m.group(1)] = ln
        i += 1
    return mod

GLOBAL_KW = {'private', 'internal', 'external', 'weak', 'linkonce_odr', 'weak_odr', 'linkonce', 'common', 'available_externally',
             'appending', 'extern_weak', 'unnamed_addr', 'local_unnamed_addr', 'dso_local', 'dso_preemptable', 'hidden', 'protected',
             'default', 'thread_local', 'externally_initialized', 'addrspace', 'initialexec', 'localdynamic', 'localexec'}

# ----------------------------------------------------------------------------- memory
class Obj:
    __slots__ = ('base', 'size', 'data', 'sym', 'live', 'kind', 'ptrs')

class Memory:
    def __init__(s):
        s.bases = []; s.objs = []; s.next = 0x10000
        s.heap_next = 0x10000000
    def alloc(s, size, align=16, kind='heap'):
        a = max(align, 1)
        s.next = (s.next + a - 1) // a * a
        o = Obj(); o.base = s.next; o.size = size; o.data = bytearray(size); o.sym = None; o.live = True; o.kind = kind
        s.next += max(size, 1) + 16
        s.bases.append(o.base); s.objs.append(o)
        return o
    def clone(s):
        m = Memory.__new__(Memory)
        m.bases = list(s.bases); m.next = s.next; m.heap_next = s.heap_next
        objs = []
        for o in s.objs:
            c = Obj(); c.base = o.base; c.size = o.size; c.data = bytearray(o.data); c.sym = dict(o.sym) if o.sym else None
            c.live = o.live; c.kind = o.kind
            objs.append(c)
        m.objs = objs
        return m
    def find(s, addr):
        i = bisect.bisect_right(s.bases, addr) - 1
        if i < 0: raise MemError('bad pointer 0x%x' % addr)
        o = s.objs[i]
        if addr > o.base + o.size: raise MemError('pointer 0x%x past object 0x%x+%d' % (addr, o.base, o.size))
        return o

class MemError(Exception): pass
class Panic(Exception): pass
class Unsupported(Exception): pass
class PathEnd(Exception): pass

