#!/usr/bin/env python3
"""LLSE engine: symbolic execution of LTO-merged LLVM IR (text). Concrete heap, symbolic scalars (z3).
State forking is done with os.fork(): every feasible alternative of a symbolic branch continues in its
own process (copy-on-write machine state, no re-execution)."""
import os, sys, re, struct, math, time, json, ctypes, traceback, gc
import z3
from ir import *

sys.setrecursionlimit(200000)

RNE = z3.RNE()
F64 = z3.Float64()
BV1_1 = z3.BitVecVal(1, 1)
BV1_0 = z3.BitVecVal(0, 1)
M64 = 0xFFFFFFFFFFFFFFFF

def is_sym(v): return isinstance(v, z3.ExprRef)
def is_fp(v): return isinstance(v, z3.FPRef)
def f64_bits(x): return struct.unpack('<Q', struct.pack('<d', x))[0]
def bits_f64(b): return struct.unpack('<d', struct.pack('<Q', b & M64))[0]
def f32_bits(x): return struct.unpack('<I', struct.pack('<f', x))[0]
def bits_f32(b): return struct.unpack('<f', struct.pack('<I', b & 0xFFFFFFFF))[0]
def sx(v, bits): return v - (1 << bits) if v >> (bits - 1) else v
def fp_const(x):
    if x != x: return z3.fpNaN(F64)
    return z3.FPVal(x, F64)
def to_fp(v):
    if is_sym(v):
        return v if is_fp(v) else z3.fpBVToFP(v, F64)
    return fp_const(v)
def to_bv(v, bits):
    if is_sym(v):
        return z3.fpToIEEEBV(v) if is_fp(v) else v
    return z3.BitVecVal(v, bits)

def fpval_to_py(v):
    if v.isNaN(): return math.nan
    if v.isInf(): return -math.inf if v.isNegative() else math.inf
    b = z3.simplify(z3.fpToIEEEBV(v))
    return bits_f64(b.as_long())

def norm(v):
    """simplify a z3 term; numerals become python values"""
    v = z3.simplify(v)
    if z3.is_bv_value(v): return v.as_long()
    if isinstance(v, z3.FPNumRef): return fpval_to_py(v)
    return v

def bool_of_i1(v):
    """z3 Bool for a symbolic i1"""
    if z3.is_app_of(v, z3.Z3_OP_ITE):
        a, b = v.arg(1), v.arg(2)
        if z3.is_bv_value(a) and z3.is_bv_value(b):
            if a.as_long() == 1 and b.as_long() == 0: return v.arg(0)
            if a.as_long() == 0 and b.as_long() == 1: return z3.Not(v.arg(0))
    return v == BV1_1

def i1_of_bool(c):
    c = z3.simplify(c)
    if z3.is_true(c): return 1
    if z3.is_false(c): return 0
    return z3.If(c, BV1_1, BV1_0)

def fmul(a, b):
    try: return a * b
    except OverflowError: return math.inf
def fdiv(a, b):
    if b == 0:
        if a != a or a == 0: return math.nan
        return math.copysign(math.inf, a) * math.copysign(1.0, b)
    try: return a / b
    except OverflowError: return math.inf
def f32_bits_safe(x):
    try: return f32_bits(x)
    except OverflowError: return f32_bits(math.copysign(math.inf, x))

def powidf2(a, b):
    recip = b < 0
    r = 1.0
    while True:
        if b & 1: r = fmul(r, a)
        b = int(b / 2)
        if b == 0: break
        a = fmul(a, a)
    return fdiv(1.0, r) if recip else r

libm = ctypes.CDLL('libm.so.6')
for _n in ('pow', 'atan2', 'hypot', 'fmod'):
    getattr(libm, _n).restype = ctypes.c_double; getattr(libm, _n).argtypes = [ctypes.c_double, ctypes.c_double]
for _n in ('exp', 'log', 'sin', 'cos', 'tan', 'exp2', 'log2', 'log10', 'asin', 'acos', 'atan', 'sinh', 'cosh', 'tanh',
           'asinh', 'acosh', 'atanh', 'log1p', 'expm1', 'tgamma', 'lgamma', 'cbrt'):
    getattr(libm, _n).restype = ctypes.c_double; getattr(libm, _n).argtypes = [ctypes.c_double]

# z3 timeouts start a timer thread per check (futex / sched_yield storms with many forked processes); the
# deterministic resource limit needs no thread. Calibrated on this machine: about 5 000 rlimit units per millisecond.
RL_PER_MS = 5000
SLOWLOG = float(os.environ.get('LLSE_SLOWLOG', '0') or 0)

class Violation(Exception):
    pass

class EndPath(Exception):
    """normal termination of the current path (status, info)"""
    def __init__(s, status, info=None):
        s.status = status; s.info = info

PANIC_PATTERNS = ('4core9panicking', '3std9panicking', '4core6option13unwrap_failed', '4core6option13expect_failed',
                  '4core6result13unwrap_failed', 'slice_start_index_len_fail', 'slice_end_index_len_fail',
                  'slice_index_order_fail', 'slice_error_fail', 'capacity_overflow', 'handle_alloc_error',
                  'rust_begin_unwind', 'rust_panic', 'panic_already', 'panic_cold', 'unwrap_failed', 'expect_failed',
                  '5alloc7raw_vec12handle_error', 'panic_in_cleanup', 'panic_nounwind', 'panic_const', 'begin_panic',
                  'panic_access_error', 'panic_display')

class Opts:
    def __init__(s, **kw):
        s.query_timeout_ms = kw.get('query_timeout_ms', 20000)
        s.instr_budget = kw.get('instr_budget', 400_000_000)
        s.max_paths = kw.get('max_paths', 2000)       # per case
        s.max_enum = kw.get('max_enum', 16)           # symbolic pointer / value enumeration
        s.trace = kw.get('trace', False)
        s.workers = kw.get('workers', 16)
        s.abstraction = kw.get('abstraction', True)
        s.per_case_setup = kw.get('per_case_setup', False)
        s.hard_timeout = kw.get('hard_timeout', False)   # also set z3's thread-based timeout (robust against queries that ignore rlimit)
        s.case_wall_s = kw.get('case_wall_s', None)      # replay mode: stop exploring a case after this many seconds (bounded exploration)
        s.split_wide_div = kw.get('split_wide_div', 0)   # bits: case-split operands of symbolic divisions at least this wide when they have <= max_enum feasible values
        s.mode = kw.get('mode', 'fork')                # 'fork': copy-on-write process per alternative; 'replay': re-execution

G_TABLES = {}
G_INBOUNDS = {}

class ConcreteModel:
    """an assignment of the symbolic inputs; evaluates terms by substitution + simplification"""
    def __init__(s, pairs):
        s.pairs = pairs
    def eval(s, e, model_completion=True):
        return z3.simplify(z3.substitute(e, *s.pairs))

class Abstractor:
    """sound over-approximation of FP arithmetic for cheap unsat proofs (see Exec.check)"""
    ARITH = (z3.Z3_OP_FPA_MUL, z3.Z3_OP_FPA_DIV, z3.Z3_OP_FPA_ADD, z3.Z3_OP_FPA_SUB, z3.Z3_OP_FPA_FMA, z3.Z3_OP_FPA_SQRT, z3.Z3_OP_FPA_REM)
    def __init__(s):
        s.memo = {}        # ast id -> abstracted ast
        s.keep = []        # keep asts alive (ids are only unique while alive)
        s.terms = []       # (kind, var, absargs, const)
        s._lem = []
        s._nice = []
        s.arith = {}       # ast id -> bool
        s.bykey = {}
    def has_arith(s, e):
        i = e.get_id()
        r = s.arith.get(i)
        if r is not None: return r
        s.keep.append(e)
        r = False
        if z3.is_app(e):
            if e.decl().kind() in s.ARITH: r = True
            else:
                for ch in e.children():
                    if s.has_arith(ch): r = True; break
        s.arith[i] = r
        return r
    def abstract(s, e):
        i = e.get_id()
        r = s.memo.get(i)
        if r is not None: return r
        s.keep.append(e)
        if not z3.is_app(e) or e.num_args() == 0 or not s.has_arith(e):
            s.memo[i] = e; return e
        k = e.decl().kind()
        ch = [s.abstract(c) for c in e.children()]
        if k in (z3.Z3_OP_FPA_ADD, z3.Z3_OP_FPA_SUB) and len(ch) == 3:
            # sums of signed terms: x+y, y+x share a variable; (-x)+(-y), x-y / y-x are linked to their mirror
            def strip(t):
                if z3.is_app_of(t, z3.Z3_OP_FPA_NEG): return t.arg(0), True
                return t, False
            (p, np), (q, nq) = strip(ch[1]), strip(ch[2])
            if k == z3.Z3_OP_FPA_SUB: nq = not nq
            if q.get_id() < p.get_id(): p, np, q, nq = q, nq, p, np
            flip = np
            if flip: np, nq = False, not nq
            key = (z3.Z3_OP_FPA_ADD, ch[0].get_id(), p.get_id(), q.get_id(), nq)
            pair = s.bykey.get(key)
            if pair is None:
                v = z3.FreshConst(e.sort(), 'abs'); w = z3.FreshConst(e.sort(), 'abs')   # v = p ± q, w = -(p ± q) computed as (-p) ∓ q
                s.bykey[key] = (v, w)
                s.add_lemmas(z3.Z3_OP_FPA_ADD, v, [ch[0], p, q]); s.add_lemmas(z3.Z3_OP_FPA_ADD, w, [ch[0], p, q])
                # rounding to nearest is symmetric: the two agree up to sign, bit for bit unless the result is a zero
                s._lem.append(z3.Or(w == z3.fpNeg(v), z3.And(z3.fpIsZero(v), z3.fpIsZero(w))))
                s.keep.append(p); s.keep.append(q)
            else:
                v, w = pair
            r = w if flip else v
        elif k in s.ARITH:
            ids = [c.get_id() for c in ch]
            if k == z3.Z3_OP_FPA_MUL and len(ids) == 3:
                key = (k, ids[0]) + tuple(sorted(ids[1:]))          # commutative
            else:
                key = (k,) + tuple(ids)
            v = s.bykey.get(key)
            if v is None:
                v = z3.FreshConst(e.sort(), 'abs')
                s.bykey[key] = v
                s.add_lemmas(k, v, ch)
            r = v
        else:
            r = e.decl()(*ch)
        s.keep.append(r)
        s.memo[i] = r
        return r
    def add_lemmas(s, k, v, ch):
        L = s._lem
        fargs = [c for c in ch if isinstance(c, z3.FPRef)]
        nan_in = z3.Or(*[z3.fpIsNaN(c) for c in fargs]) if fargs else z3.BoolVal(False)
        L.append(z3.Implies(nan_in, z3.fpIsNaN(v)))
        if k == z3.Z3_OP_FPA_ADD and len(fargs) == 2:
            # exact characterisation of NaN results of a sum (args given with their signs already applied by the caller
            # only for the unsigned canonical form, so state it sign-agnostically: NaN needs a NaN or two infinities)
            x, y = fargs
            L.append(z3.Implies(z3.fpIsNaN(v), z3.Or(nan_in, z3.And(z3.fpIsInf(x), z3.fpIsInf(y)))))
            L.append(z3.Implies(z3.And(z3.Not(nan_in), z3.Xor(z3.fpIsInf(x), z3.fpIsInf(y))), z3.fpIsInf(v)))
        if k in (z3.Z3_OP_FPA_MUL, z3.Z3_OP_FPA_DIV) and len(fargs) == 2:
            x, y = fargs
            cx = isinstance(x, z3.FPNumRef); cy = isinstance(y, z3.FPNumRef)
            if cx != cy:
                # one side is a constant c
                c, t = (x, y) if cx else (y, x)
                c_is_divisor = (k == z3.Z3_OP_FPA_DIV and cy)
                c_is_dividend = (k == z3.Z3_OP_FPA_DIV and cx)
                finite_nz = not (c.isNaN() or c.isInf() or c.isZero())
                if finite_nz and not c_is_dividend:
                    neg = c.isNegative()
                    L.append(z3.fpIsNaN(v) == z3.fpIsNaN(t))
                    L.append(z3.Implies(z3.fpIsInf(t), z3.fpIsInf(v)))
                    L.append(z3.Implies(z3.fpIsZero(t), z3.fpIsZero(v)))
                    s._nice.append(z3.fpIsInf(v) == z3.fpIsInf(t)); s._nice.append(z3.fpIsZero(v) == z3.fpIsZero(t))
                    L.append(z3.Implies(z3.Not(z3.fpIsNaN(t)), z3.fpIsNegative(v) == (z3.Not(z3.fpIsNegative(t)) if neg else z3.fpIsNegative(t))))
                    key = ('mul' if k == z3.Z3_OP_FPA_MUL else 'div', c.get_id())
                    for (key2, v2, t2, neg2) in s.terms:
                        if key2 == key:
                            # same operation with the same constant: monotone (weakly), equal inputs give equal outputs
                            if not neg:
                                L.append(z3.Implies(z3.fpLEQ(t, t2), z3.fpLEQ(v, v2)))
                                L.append(z3.Implies(z3.fpLEQ(t2, t), z3.fpLEQ(v2, v)))
                            else:
                                L.append(z3.Implies(z3.fpLEQ(t, t2), z3.fpLEQ(v2, v)))
                                L.append(z3.Implies(z3.fpLEQ(t2, t), z3.fpLEQ(v, v2)))
                            L.append(z3.Implies(t == t2, v == v2))
                    s.terms.append((key, v, t, neg))
            elif not cx and not cy and k == z3.Z3_OP_FPA_MUL:
                L.append(z3.Implies(z3.And(z3.Not(nan_in), z3.Not(z3.And(z3.fpIsInf(x), z3.fpIsZero(y))), z3.Not(z3.And(z3.fpIsZero(x), z3.fpIsInf(y)))), z3.Not(z3.fpIsNaN(v))))
    def lemmas(s):
        return s._lem
    def nice(s):
        return s._nice

class Frame:
    __slots__ = ('fn', 'regs', 'allocas')

class Exec:
    def __init__(s, mod, opts=None, base=None):
        s.mod = mod; s.tc = mod.tc; s.opts = opts or Opts()
        if base is None:
            s.mem = Memory()
            s.gaddr = {}; s.faddr = {}; s.addr2fn = {}; s.gconst = set()
        else:
            # a fresh machine sharing the immutable parts (address maps, parsed code) with `base`
            s.mem = base.mem.clone()
            s.gaddr = base.gaddr; s.faddr = base.faddr; s.addr2fn = base.addr2fn; s.gconst = base.gconst
        s.ninstr = 0
        s.path = []                 # path condition (z3 Bools)
        s.known = {}                # ast id -> truth value already implied by the path
        s.symvars = {}              # ('f'|'u', id) -> z3 BV var
        s.concrete = None           # concrete-mode inputs: {('f', id): bits, ('u', id): int}
        s.solver_time = 0.0; s.queries = 0; s.unknowns = 0
        s.depth = 0
        s.callstack = []
        s.fnseen = set()
        s.covers = []; s.observations = []; s.asserts = {}   # tag -> [n_checked, n_violated]
        s.violations = []
        s.case = None; s.path_id = '0'
        s.children = []; s.has_token = False
        s.ctl = None
        s.stdout = bytearray()
        s.tls_keys = {}
        s.errno_obj = None
        s.arrcache = {}
        s.callees = {}
        s.path_model = None
        s.path_known_feasible = True
        s.has_fp_inputs = False; s.inc_solver = None; s.inc_n = 0
        s.replay = None; s.dpos = 0; s.trail = []; s.pending = None; s.nhook = 0; s.hookcache = None
        s.abstractor = Abstractor(); s.abs_queries = 0; s.abs_unsat = 0; s.abs_sat = 0
        if base is None: s.layout_globals()
        else: s.callees = base.callees

    # ------------------------------------------------------------------ globals
    def layout_globals(s):
        mod = s.mod
        fa = 0x7000000000
        for name in list(mod.funcs) + sorted(mod.declares):
            s.faddr[name] = fa; s.addr2fn[fa] = name; fa += 16
        pend = []
        for name, ln in mod.globals_src.items():
            toks = tokenize(ln); p = P(toks, s.tc)
            p.next(); p.expect('=')
            while p.peek()[0] == 'word' and p.peek()[1] in GLOBAL_KW:
                w = p.next()[1]
                if w in ('thread_local', 'addrspace') and p.peek()[1] == '(':
                    skip_parens(p)
            kw = p.next()[1]
            if kw == 'alias':
                p.type(); p.expect(','); p.type(); tgt = p.next()[1]
                mod.aliases[name] = tgt; continue
            assert kw in ('global', 'constant'), kw
            t = p.type()
            init = None
            if not p.at_end() and p.peek()[1] != ',':
                fp = FnParser(mod, {})
                init = fp.value(p, t)
            al = 16
            while p.accept(','):
                if p.accept('align'): al = int(p.next()[1])
                else:
                    while not p.at_end() and p.peek()[1] != ',': p.next()
            o = s.mem.alloc(s.tc.size(t), al, 'const' if kw == 'constant' else 'global')
            s.gaddr[name] = o.base
            pend.append((o, t, init))
        for a, tgt in mod.aliases.items():
            if tgt in s.gaddr: s.gaddr[a] = s.gaddr[tgt]
            elif tgt in s.faddr: s.faddr[a] = s.faddr[tgt]
        for o, t, init in pend:
            if init is not None:
                v = s.const_eval(init, t)
                s.store(o.base, t, v)

    def const_eval(s, op, t):
        k = op[0]
        if k == 'c': return op[1]
        if k == 'g': return s.global_addr(op[1])
        if k == 'agg':
            rt = s.tc.resolve(t)
            if rt.k == 'struct': return [s.const_eval(e, ft) for e, ft in zip(op[1], rt.fields)]
            return [s.const_eval(e, rt.el) for e in op[1]]
        if k == 'gep':
            _, bt, base, idx = op
            b = s.const_eval(base, PTR)
            return s.gep(bt, b, [s.const_eval(i, I64) for i in idx], [I64] * len(idx))
        if k == 'cast':
            _, cop, ft, v, tt = op
            return s.cast(cop, ft, s.const_eval(v, ft), tt)
        if k == 'bin':
            _, bop, t1, a, b = op
            return s.binop(bop, s.tc.resolve(t1), s.const_eval(a, t1), s.const_eval(b, t1))
        raise NotImplementedError(op)

    def global_addr(s, name):
        a = s.gaddr.get(name)
        if a is not None: return a
        a = s.faddr.get(name)
        if a is not None: return a
        o = s.mem.alloc(64, 16, 'extglobal'); s.gaddr[name] = o.base
        return o.base

    # ------------------------------------------------------------------ memory access
    def load(s, addr, t):
        if is_sym(addr): return s.load_symaddr(addr, t)
        rt = s.tc.resolve(t); k = rt.k
        if k == 'int':
            sz = s.tc.size(rt)
            v = s.load_bytes(addr, sz)
            if is_sym(v):
                if is_fp(v): v = z3.fpToIEEEBV(v)
                if rt.bits < sz * 8: v = z3.Extract(rt.bits - 1, 0, v)
                return norm(v)
            return v & ((1 << rt.bits) - 1)
        if k == 'ptr':
            return s.load_bytes(addr, 8)
        if k == 'double':
            v = s.load_bytes(addr, 8)
            if is_sym(v):
                return v if is_fp(v) else norm(z3.fpBVToFP(v, F64))
            return bits_f64(v)
        if k == 'float':
            v = s.load_bytes(addr, 4)
            if is_sym(v): raise Unsupported('symbolic f32')
            return bits_f32(v)
        if k == 'array':
            es = s.tc.size(rt.el)
            return [s.load(addr + i * es, rt.el) for i in range(rt.n)]
        if k == 'vector':
            el = s.tc.resolve(rt.el)
            if el.k == 'int' and el.bits == 1:
                v = s.load_bytes(addr, (rt.n + 7) // 8)
                if is_sym(v): raise Unsupported('symbolic i1 vector load')
                return [(v >> i) & 1 for i in range(rt.n)]
            es = s.tc.size(rt.el)
            return [s.load(addr + i * es, rt.el) for i in range(rt.n)]
        if k == 'struct':
            offs = s.tc.offsets(rt)
            return [s.load(addr + o, f) for o, f in zip(offs, rt.fields)]
        raise NotImplementedError('load %r' % rt)

    def load_bytes(s, addr, sz):
        o = s.mem.find(addr)
        off = addr - o.base
        if off + sz > o.size: raise MemError('load oob 0x%x+%d obj 0x%x size %d' % (addr, sz, o.base, o.size))
        if not o.live: raise MemError('use after free 0x%x' % addr)
        sym = o.sym
        if sym:
            e0 = sym.get(off)
            hit = e0 is not None
            if not hit:
                for i in range(off + 1, off + sz):
                    if i in sym: hit = True; break
            if hit:
                # fast path: the whole value was stored by one store of the same width
                if e0 is not None and e0[1] == 0 and e0[0].sort().kind() in (z3.Z3_BV_SORT, z3.Z3_FLOATING_POINT_SORT):
                    ex = e0[0]
                    w = ex.size() if not is_fp(ex) else ex.ebits() + ex.sbits()
                    if w == sz * 8:
                        ok = True
                        for i in range(1, sz):
                            e = sym.get(off + i)
                            if e is None or e[0] is not ex or e[1] != i: ok = False; break
                        if ok: return ex
                parts = []
                i = off + sz - 1
                while i >= off:
                    e = sym.get(i)
                    if e is None:
                        parts.append(z3.BitVecVal(o.data[i], 8))
                    else:
                        ex, bi = e
                        if is_fp(ex): ex = z3.fpToIEEEBV(ex)
                        parts.append(z3.Extract(bi * 8 + 7, bi * 8, ex))
                    i -= 1
                v = parts[0] if len(parts) == 1 else z3.Concat(*parts)
                return norm(v)
        return int.from_bytes(o.data[off:off + sz], 'little')

    def store_bytes(s, addr, sz, v):
        o = s.mem.find(addr)
        off = addr - o.base
        if off + sz > o.size: raise MemError('store oob 0x%x+%d obj 0x%x size %d' % (addr, sz, o.base, o.size))
        if not o.live: raise MemError('store after free 0x%x' % addr)
        if is_sym(v):
            if o.sym is None: o.sym = {}
            sym = o.sym
            for i in range(sz):
                sym[off + i] = (v, i)
        else:
            o.data[off:off + sz] = (v & ((1 << (8 * sz)) - 1)).to_bytes(sz, 'little')
            if o.sym:
                sym = o.sym
                for i in range(off, off + sz):
                    sym.pop(i, None)

    def store(s, addr, t, v):
        if is_sym(addr):
            addr = s.choose_value(to_bv(addr, 64), 64, s.opts.max_enum)
            if addr is None: raise Unsupported('store to symbolic address with many targets')
        rt = s.tc.resolve(t); k = rt.k
        if k == 'int':
            sz = s.tc.size(rt)
            if is_sym(v):
                if is_fp(v): v = z3.fpToIEEEBV(v)
                if v.size() < sz * 8: v = z3.ZeroExt(sz * 8 - v.size(), v)
            s.store_bytes(addr, sz, v)
        elif k == 'ptr':
            s.store_bytes(addr, 8, v)
        elif k == 'double':
            if is_sym(v): s.store_bytes(addr, 8, v)
            else: s.store_bytes(addr, 8, f64_bits(v))
        elif k == 'float':
            if is_sym(v): raise Unsupported('symbolic f32 store')
            s.store_bytes(addr, 4, f32_bits(v))
        elif k == 'vector' and s.tc.resolve(rt.el).k == 'int' and s.tc.resolve(rt.el).bits == 1:
            r = 0
            for i, b in enumerate(v):
                if is_sym(b): raise Unsupported('symbolic i1 vector store')
                r |= (b & 1) << i
            s.store_bytes(addr, (rt.n + 7) // 8, r)
        elif k in ('array', 'vector'):
            es = s.tc.size(rt.el)
            for i, e in enumerate(v): s.store(addr + i * es, rt.el, e)
        elif k == 'struct':
            offs = s.tc.offsets(rt)
            for o_, f, e in zip(offs, rt.fields, v): s.store(addr + o_, f, e)
        else:
            raise NotImplementedError('store %r' % rt)

    def memcpy(s, dst, src, n):
        if is_sym(n):
            n = s.choose_value(to_bv(n, 64), 64, 64)
            if n is None: raise Unsupported('memcpy with unbounded symbolic length')
        if n == 0: return
        if is_sym(dst): dst = s.concretize(dst, 64, what='memcpy destination')
        if is_sym(src): src = s.concretize(src, 64, what='memcpy source')
        so = s.mem.find(src); do = s.mem.find(dst)
        a = src - so.base; b = dst - do.base
        if a + n > so.size or b + n > do.size: raise MemError('memcpy oob')
        if not so.live or not do.live: raise MemError('memcpy on freed object')
        data = bytes(so.data[a:a + n])
        symsrc = None
        if so.sym:
            ssym = so.sym
            symsrc = {i - a: ssym[i] for i in range(a, a + n) if i in ssym}
        do.data[b:b + n] = data
        if do.sym:
            dsym = do.sym
            for i in range(b, b + n): dsym.pop(i, None)
        if symsrc:
            if do.sym is None: do.sym = {}
            for i, e in symsrc.items(): do.sym[b + i] = e

    def has_sym_bytes(s, addr, n):
        if n == 0: return False
        o = s.mem.find(addr)
        if not o.sym: return False
        off = addr - o.base
        sym = o.sym
        if len(sym) < n:
            return any(off <= i < off + n for i in sym)
        return any(i in sym for i in range(off, off + n))

    def load_symaddr(s, addr, t):
        """load through a symbolic address: few targets -> fork; otherwise (read of a region inside one
        object) an array read"""
        addr = to_bv(addr, 64)
        a = s.choose_value(addr, 64, s.opts.max_enum)
        if a is not None:
            return s.load(a, t)
        rt = s.tc.resolve(t)
        if rt.k not in ('int', 'ptr', 'double'): raise Unsupported('aggregate load through symbolic address')
        sz = s.tc.size(rt)
        pkey = (tuple(c.get_id() for c in s.path), addr.get_id(), sz)
        hit = G_INBOUNDS.get(pkey)
        if hit is None:
            m = s.model_value(addr)
            o = s.mem.find(m)
            if not o.live: raise MemError('use after free (symbolic address)')
            lo = z3.BitVecVal(o.base, 64); hi = z3.BitVecVal(o.base + o.size - sz, 64)
            r = s.check(z3.Or(z3.ULT(addr, lo), z3.UGT(addr, hi)))
            if r != 'unsat':
                raise Unsupported('symbolic address may leave its object (%s)' % r)
            G_INBOUNDS[pkey] = (o.base, addr, list(s.path))     # terms kept alive so that ids stay unique
        else:
            o = s.mem.find(hit[0])
            if not o.live: raise MemError('use after free (symbolic address)')
            lo = z3.BitVecVal(o.base, 64)
        if o.size > 4096: raise Unsupported('symbolic address into an object of %d bytes' % o.size)
        off = z3.simplify(addr - lo)
        nbits = max(1, (o.size - 1).bit_length())
        offn = z3.Extract(nbits - 1, 0, off) if nbits < 64 else off     # in-bounds was proved above
        if o.sym:
            sym = o.sym
            def byte_at(i):
                e = sym.get(i)
                if e is None: return z3.BitVecVal(o.data[i], 8)
                ex, bi = e
                if is_fp(ex): ex = z3.fpToIEEEBV(ex)
                return z3.Extract(bi * 8 + 7, bi * 8, ex)
            val = None
            for start in range(o.size - sz, -1, -1):
                parts = [byte_at(start + i) for i in range(sz - 1, -1, -1)]
                w = parts[0] if sz == 1 else z3.Concat(*parts)
                val = w if val is None else z3.If(offn == z3.BitVecVal(start, nbits), w, val)
            v = val
        else:
            # fully concrete object: the if-then-else chain over its offsets is built once per content and reused
            key = (o.size, sz, bytes(o.data))
            ent = G_TABLES.get(key)
            if ent is None:
                ph = z3.BitVec('__off_%d_%d' % (nbits, len(G_TABLES)), nbits)
                val = None
                data = o.data
                for start in range(o.size - sz, -1, -1):
                    w = z3.BitVecVal(int.from_bytes(data[start:start + sz], 'little'), sz * 8)
                    val = w if val is None else z3.If(ph == z3.BitVecVal(start, nbits), w, val)
                ent = (ph, val)
                G_TABLES[key] = ent
            v = z3.substitute(ent[1], (ent[0], offn))
        if rt.k == 'int' and rt.bits < sz * 8: v = z3.Extract(rt.bits - 1, 0, v)
        if rt.k == 'double': v = z3.fpBVToFP(v, F64)
        return norm(v)

    def obj_array(s, o):
        key = o.base if o.kind == 'const' else None
        if key is not None and key in s.arrcache: return s.arrcache[key]
        arr = z3.K(z3.BitVecSort(64), z3.BitVecVal(0, 8))
        sym = o.sym or {}
        for i in range(o.size):
            e = sym.get(i)
            if e is None:
                b = o.data[i]
                if b == 0: continue
                arr = z3.Store(arr, z3.BitVecVal(i, 64), z3.BitVecVal(b, 8))
            else:
                ex, bi = e
                if is_fp(ex): ex = z3.fpToIEEEBV(ex)
                arr = z3.Store(arr, z3.BitVecVal(i, 64), z3.Extract(bi * 8 + 7, bi * 8, ex))
        if key is not None: s.arrcache[key] = arr
        return arr

    # ------------------------------------------------------------------ gep / casts / ops
    def gep(s, bt, base, idx, idxtypes):
        tc = s.tc
        addr = base
        t = bt
        first = True
        symoff = None
        for i, it in zip(idx, idxtypes):
            bits = tc.resolve(it).bits
            if is_sym(i):
                ix = i if bits == 64 else z3.SignExt(64 - bits, i)
                if first:
                    scale = tc.size(t); first = False
                else:
                    rt = tc.resolve(t)
                    if rt.k in ('array', 'vector'):
                        scale = tc.size(rt.el); t = rt.el
                    else:
                        raise Unsupported('symbolic struct index in gep')
                term = ix * z3.BitVecVal(scale, 64)
                symoff = term if symoff is None else symoff + term
                continue
            iv = sx(i, bits)
            if first:
                addr += iv * tc.size(t); first = False
            else:
                rt = tc.resolve(t)
                if rt.k == 'struct':
                    addr += tc.offsets(rt)[iv]; t = rt.fields[iv]
                elif rt.k in ('array', 'vector'):
                    addr += iv * tc.size(rt.el); t = rt.el
                else:
                    raise NotImplementedError('gep into %r' % rt)
        if symoff is not None or is_sym(addr):
            a = to_bv(addr, 64) if is_sym(addr) else z3.BitVecVal(addr & M64, 64)
            if symoff is not None: a = a + symoff
            return norm(a)
        return addr & M64

    def cast(s, op, ft, v, tt):
        tc = s.tc
        rf = tc.resolve(ft); rt = tc.resolve(tt)
        if rf.k == 'vector':
            if op == 'bitcast':
                return s.bitcast_agg(rf, v, rt)
            return [s.cast(op, rf.el, e, rt.el) for e in v]
        if op == 'trunc':
            if is_sym(v): return norm(z3.Extract(rt.bits - 1, 0, to_bv(v, rf.bits)))
            return v & ((1 << rt.bits) - 1)
        if op == 'zext':
            if is_sym(v): return norm(z3.ZeroExt(rt.bits - rf.bits, v))
            return v
        if op == 'sext':
            if is_sym(v): return norm(z3.SignExt(rt.bits - rf.bits, v))
            return sx(v, rf.bits) & ((1 << rt.bits) - 1)
        if op == 'ptrtoint':
            if is_sym(v):
                v = to_bv(v, 64)
                return v if rt.bits == 64 else norm(z3.Extract(rt.bits - 1, 0, v))
            return v & ((1 << rt.bits) - 1)
        if op in ('inttoptr', 'addrspacecast'):
            if is_sym(v) and not is_fp(v) and v.size() < 64: return z3.ZeroExt(64 - v.size(), v)
            return v
        if op == 'bitcast':
            if rf.k == rt.k: return v
            if rf.k == 'double' and rt.k == 'int':
                return norm(z3.fpToIEEEBV(v)) if is_sym(v) else f64_bits(v)
            if rf.k == 'int' and rt.k == 'double':
                return norm(z3.fpBVToFP(v, F64)) if is_sym(v) else bits_f64(v)
            if rf.k == 'float' and rt.k == 'int': return f32_bits(v)
            if rf.k == 'int' and rt.k == 'float': return bits_f32(v)
            if rt.k == 'vector' or rf.k == 'vector': return s.bitcast_agg(rf, v, rt)
            raise NotImplementedError('bitcast %r->%r' % (rf, rt))
        if op in ('sitofp', 'uitofp'):
            if is_sym(v):
                if rt.k != 'double': raise Unsupported('symbolic int to f32')
                return z3.fpSignedToFP(RNE, v, F64) if op == 'sitofp' else z3.fpUnsignedToFP(RNE, v, F64)
            x = sx(v, rf.bits) if op == 'sitofp' else v
            try: r = float(x)
            except OverflowError: r = math.inf if x > 0 else -math.inf
            if rt.k == 'float': r = bits_f32(f32_bits_safe(r))
            return r
        if op in ('fptosi', 'fptoui'):
            if is_sym(v):
                v = to_fp(v)
                return norm(z3.fpToSBV(z3.RTZ(), v, z3.BitVecSort(rt.bits)) if op == 'fptosi' else z3.fpToUBV(z3.RTZ(), v, z3.BitVecSort(rt.bits)))
            if v != v: return 0
            if math.isinf(v):
                x = (1 << (rt.bits - (1 if op == 'fptosi' else 0))) - 1 if v > 0 else (-(1 << (rt.bits - 1)) if op == 'fptosi' else 0)
            else:
                x = int(v)
            return x & ((1 << rt.bits) - 1)
        if op == 'fpext':
            if is_sym(v): raise Unsupported('symbolic fpext')
            return v
        if op == 'fptrunc':
            if is_sym(v): raise Unsupported('symbolic fptrunc')
            return bits_f32(f32_bits_safe(v))
        raise NotImplementedError('cast ' + op)

    def bitcast_agg(s, rf, v, rt):
        if rf.k == 'vector' and s.tc.resolve(rf.el).k == 'int' and s.tc.resolve(rf.el).bits == 1 and rt.k == 'int':
            r = 0
            for i, b in enumerate(v):
                if is_sym(b): raise Unsupported('symbolic i1 vector bitcast')
                r |= (b & 1) << i
            return r
        o = s.mem.alloc(64, 16, 'tmp')
        s.store(o.base, rf, v)
        r = s.load(o.base, rt)
        o.live = False
        return r

    def binop(s, op, rt, a, b):
        if rt.k == 'vector':
            el = s.tc.resolve(rt.el)
            return [s.binop(op, el, x, y) for x, y in zip(a, b)]
        if rt.k == 'int':
            bits = rt.bits; mask = (1 << bits) - 1
            if is_sym(a) or is_sym(b):
                a = to_bv(a, bits); b = to_bv(b, bits)
                if op == 'add': r = a + b
                elif op == 'sub': r = a - b
                elif op == 'mul': r = a * b
                elif op == 'and': r = a & b
                elif op == 'or': r = a | b
                elif op == 'xor': r = a ^ b
                elif op == 'shl': r = a << b
                elif op == 'lshr': r = z3.LShR(a, b)
                elif op == 'ashr': r = a >> b
                elif op in ('udiv', 'urem', 'sdiv', 'srem'):
                    # division by zero is UB in LLVM; Rust guards it with an explicit check, so the
                    # divisor is non-zero on any reachable path. Check anyway.
                    if s.opts.split_wide_div and bits >= s.opts.split_wide_div:
                        # case split by solver enumeration: one path per feasible operand value when
                        # there are few of them (the division then folds to a constant)
                        for which in (0, 1):
                            x = (a, b)[which]
                            if is_sym(x):
                                cv = s.choose_value(x, bits, s.opts.max_enum)
                                if cv is not None:
                                    if which == 0: a = z3.BitVecVal(cv, bits)
                                    else: b = z3.BitVecVal(cv, bits)
                        if not is_sym(a) and not is_sym(b):
                            return s.binop(op, rt, a.as_long(), b.as_long())
                    dz = s.check(b == z3.BitVecVal(0, bits))
                    if dz == 'sat': raise Panic('possible division by zero (IR level)')
                    if dz != 'unsat':
                        raise EndPath('undecided', 'solver returned unknown for the divisor-non-zero side condition of an IR division')
                    r = {'udiv': lambda: z3.UDiv(a, b), 'urem': lambda: z3.URem(a, b), 'sdiv': lambda: a / b, 'srem': lambda: z3.SRem(a, b)}[op]()
                else: raise NotImplementedError(op)
                return norm(r)
            if op == 'add': return (a + b) & mask
            if op == 'sub': return (a - b) & mask
            if op == 'mul': return (a * b) & mask
            if op == 'and': return a & b
            if op == 'or': return a | b
            if op == 'xor': return a ^ b
            if op == 'shl': return (a << b) & mask if b < bits else 0
            if op == 'lshr': return a >> b if b < bits else 0
            if op == 'ashr': return (sx(a, bits) >> min(b, bits - 1)) & mask
            if op == 'udiv':
                if b == 0: raise Panic('udiv by zero')
                return a // b
            if op == 'urem':
                if b == 0: raise Panic('urem by zero')
                return a % b
            if op == 'sdiv':
                x, y = sx(a, bits), sx(b, bits)
                if y == 0: raise Panic('sdiv by zero')
                q = abs(x) // abs(y)
                if (x < 0) != (y < 0): q = -q
                return q & mask
            if op == 'srem':
                x, y = sx(a, bits), sx(b, bits)
                if y == 0: raise Panic('srem by zero')
                r = abs(x) % abs(y)
                if x < 0: r = -r
                return r & mask
            raise NotImplementedError(op)
        # float
        if is_sym(a) or is_sym(b):
            if rt.k != 'double': raise Unsupported('symbolic f32 arithmetic')
            # x*1.0 = x/1.0 = x exactly (sign of zero, infinities and the single NaN included)
            if op == 'fmul':
                if not is_sym(b) and b == 1.0: return to_fp(a)
                if not is_sym(a) and a == 1.0: return to_fp(b)
            elif op == 'fdiv':
                if not is_sym(b) and b == 1.0: return to_fp(a)
            a = to_fp(a); b = to_fp(b)
            if op == 'fadd': return z3.fpAdd(RNE, a, b)
            if op == 'fsub': return z3.fpSub(RNE, a, b)
            if op == 'fmul': return z3.fpMul(RNE, a, b)
            if op == 'fdiv': return z3.fpDiv(RNE, a, b)
            if op == 'frem': raise Unsupported('symbolic frem')
            raise NotImplementedError(op)
        if rt.k == 'float':
            r = s.binop(op, DOUBLE, a, b)
            return bits_f32(f32_bits_safe(r))
        if op == 'fadd': return a + b
        if op == 'fsub': return a - b
        if op == 'fmul': return fmul(a, b)
        if op == 'fdiv': return fdiv(a, b)
        if op == 'frem':
            if math.isinf(a) or b == 0 or a != a or b != b: return math.nan
            return math.fmod(a, b)
        raise NotImplementedError(op)

    def icmp(s, pred, rt, a, b):
        if rt.k == 'vector':
            el = s.tc.resolve(rt.el)
            return [s.icmp(pred, el, x, y) for x, y in zip(a, b)]
        bits = 64 if rt.k == 'ptr' else rt.bits
        if is_sym(a) or is_sym(b):
            a = to_bv(a, bits); b = to_bv(b, bits)
            if pred == 'eq': c = a == b
            elif pred == 'ne': c = a != b
            elif pred == 'ugt': c = z3.UGT(a, b)
            elif pred == 'uge': c = z3.UGE(a, b)
            elif pred == 'ult': c = z3.ULT(a, b)
            elif pred == 'ule': c = z3.ULE(a, b)
            elif pred == 'sgt': c = a > b
            elif pred == 'sge': c = a >= b
            elif pred == 'slt': c = a < b
            elif pred == 'sle': c = a <= b
            else: raise NotImplementedError(pred)
            return i1_of_bool(c)
        if pred == 'eq': return int(a == b)
        if pred == 'ne': return int(a != b)
        if pred == 'ugt': return int(a > b)
        if pred == 'uge': return int(a >= b)
        if pred == 'ult': return int(a < b)
        if pred == 'ule': return int(a <= b)
        x, y = sx(a, bits), sx(b, bits)
        if pred == 'sgt': return int(x > y)
        if pred == 'sge': return int(x >= y)
        if pred == 'slt': return int(x < y)
        if pred == 'sle': return int(x <= y)
        raise NotImplementedError(pred)

    def fcmp(s, pred, a, b):
        if is_sym(a) or is_sym(b):
            a = to_fp(a); b = to_fp(b)
            if pred == 'true': return 1
            if pred == 'false': return 0
            un = z3.Or(z3.fpIsNaN(a), z3.fpIsNaN(b))
            if pred == 'ord': c = z3.Not(un)
            elif pred == 'uno': c = un
            else:
                p = pred[1:]
                if p == 'eq': base = z3.fpEQ(a, b)
                elif p == 'gt': base = z3.fpGT(a, b)
                elif p == 'ge': base = z3.fpGEQ(a, b)
                elif p == 'lt': base = z3.fpLT(a, b)
                elif p == 'le': base = z3.fpLEQ(a, b)
                elif p == 'ne': base = z3.And(z3.Not(un), z3.Not(z3.fpEQ(a, b)))
                else: raise NotImplementedError(pred)
                c = base if pred[0] == 'o' else z3.Or(un, base)
            return i1_of_bool(c)
        un = (a != a) or (b != b)
        if pred == 'ord': return int(not un)
        if pred == 'uno': return int(un)
        if pred == 'true': return 1
        if pred == 'false': return 0
        if un: return int(pred[0] == 'u')
        p = pred[1:]
        if p == 'eq': return int(a == b)
        if p == 'gt': return int(a > b)
        if p == 'ge': return int(a >= b)
        if p == 'lt': return int(a < b)
        if p == 'le': return int(a <= b)
        if p == 'ne': return int(a != b)
        raise NotImplementedError(pred)

    # ------------------------------------------------------------------ solver interface
    def check(s, extra=None, want_model=False):
        """decide path ∧ extra. returns 'sat' | 'unsat' | 'unknown' (model kept in s.last_model if sat).
        Abstraction first: floating-point products/quotients are replaced by fresh variables constrained by
        sound lemmas (NaN/inf/zero/sign propagation, monotonicity for equal constant factors). The abstraction
        over-approximates, so `unsat` there is `unsat` here; anything else is decided on the exact formula."""
        if s.opts.abstraction and bool(s.symvars) and s.path_has_fp_arith(extra):
            t0 = time.time()
            sol = z3.Solver(); sol.set('rlimit', min(5000, s.opts.query_timeout_ms) * RL_PER_MS)
            ab = s.abstractor
            cons = [ab.abstract(c) for c in s.path]
            if extra is not None: cons.append(ab.abstract(extra))
            sol.add(*cons); sol.add(*ab.lemmas())
            r = sol.check()
            s.solver_time += time.time() - t0; s.abs_queries += 1
            if r == z3.unsat:
                s.queries += 1; s.abs_unsat += 1
                s.last_model = None
                return 'unsat'
            if r == z3.sat and s.symvars:
                # candidate inputs from the abstract model: accept them if they satisfy the exact formula.
                # First ask for a "well-behaved" abstract model (no overflow/underflow in products by constants),
                # whose inputs are far more likely to satisfy the exact formula; then the unconstrained one.
                t1 = time.time()
                plain = sol.model()
                cands = []
                sol.push(); sol.add(*ab.nice())
                if sol.check() == z3.sat: cands.append(sol.model())
                sol.pop()
                cands.append(plain)
                allc = s.path + ([extra] if extra is not None else [])
                for am in cands:
                    cm = ConcreteModel([(v, am.eval(v, model_completion=True)) for v in s.symvars.values()])
                    ok = True
                    for c in allc:
                        if not z3.is_true(cm.eval(c)): ok = False; break
                    if ok:
                        s.solver_time += time.time() - t1
                        s.queries += 1; s.abs_sat += 1
                        s.last_model = cm
                        return 'sat'
                s.solver_time += time.time() - t1
        t0 = time.time()
        if not s.has_fp_inputs:
            # pure bit-vector problems: one incremental solver per path, constraints asserted once
            sol = s.inc_solver
            if sol is None:
                sol = s.inc_solver = z3.Solver()
                sol.set('rlimit', s.opts.query_timeout_ms * RL_PER_MS)
                if s.opts.hard_timeout: sol.set('timeout', s.opts.query_timeout_ms)
                s.inc_n = 0
            if s.inc_n < len(s.path):
                sol.add(*s.path[s.inc_n:]); s.inc_n = len(s.path)
            sol.push()
            if extra is not None: sol.add(extra)
            r = sol.check()
            s.last_model = sol.model() if r == z3.sat else None
            res = 'sat' if r == z3.sat else ('unsat' if r == z3.unsat else 'unknown')
            ctl = s.ctl
            if ctl is not None and ctl.sample_dir and res != 'unknown' and ctl.sample_every and (s.queries + 1) % ctl.sample_every == 0:
                try:
                    with open(os.path.join(ctl.sample_dir, 'q_%d_%d_%d.smt2' % (os.getpid(), len(s.path), s.queries + 1)), 'w') as f:
                        f.write('; expected: %s\n' % res)
                        f.write(sol.to_smt2())
                except Exception:
                    pass
            sol.pop()
            dt = time.time() - t0
            s.queries += 1; s.solver_time += dt
            if res == 'unknown': s.unknowns += 1
            return res
        sol = z3.Solver()
        sol.set('rlimit', s.opts.query_timeout_ms * RL_PER_MS)
        if s.opts.hard_timeout: sol.set('timeout', s.opts.query_timeout_ms)
        if s.path: sol.add(*s.path)
        if extra is not None: sol.add(extra)
        r = sol.check()
        dt = time.time() - t0
        s.queries += 1; s.solver_time += dt
        res = 'sat' if r == z3.sat else ('unsat' if r == z3.unsat else 'unknown')
        if res == 'unknown': s.unknowns += 1
        if SLOWLOG and dt > SLOWLOG:
            sys.stderr.write('SLOW %.1fs %s in %s | extra=%s | npath=%d\n' % (dt, res, demangle(s.callstack[-1]) if s.callstack else '?', (extra.sexpr()[:3000].replace('\n', ' ') if extra is not None else None), len(s.path)))
        s.last_model = sol.model() if res == 'sat' else None
        ctl = s.ctl
        if ctl is not None and ctl.sample_dir and res != 'unknown':
            every = ctl.sample_every
            if every and (s.queries % every == 0 or (dt > 1.0 and res == 'unsat')):
                try:
                    fn = os.path.join(ctl.sample_dir, 'q_%d_%d.smt2' % (os.getpid(), s.queries))
                    with open(fn, 'w') as f:
                        f.write('; expected: %s\n' % res)
                        f.write(sol.to_smt2())
                except Exception:
                    pass
        return res

    def path_has_fp_arith(s, extra):
        ab = s.abstractor
        if extra is not None and ab.has_arith(extra): return True
        for c in s.path:
            if ab.has_arith(c): return True
        return False

    def add_constraint(s, c, model=None):
        s.path_model = model
        s.path.append(c)
        s.known[c.get_id()] = True
        if z3.is_not(c): s.known[c.arg(0).get_id()] = False

    def model_value(s, bv):
        if s.check() != 'sat': raise Unsupported('path infeasible or unknown when asking for a model')
        return s.last_model.eval(bv, model_completion=True).as_long()

    def choice(s, compute):
        """One non-deterministic choice point. `compute()` returns the list of feasible alternatives (payloads);
        it is only called when this point is reached for the first time (not while replaying a recorded prefix)."""
        rp = s.replay
        if rp is not None and s.dpos < len(rp):
            p = rp[s.dpos]; s.dpos += 1
            s.trail.append(p)
            return p
        alts = compute()
        if len(alts) == 1:
            p = alts[0]
        elif rp is not None:
            # replay mode: the other alternatives are explored later by re-execution from the case start
            for a in alts[1:]:
                s.pending.append(s.trail + [a])
            p = alts[0]
        else:
            p = alts[s.fork(len(alts))]
        s.trail.append(p)
        if rp is not None: s.dpos = len(rp) + 1000000
        return p

    def branch(s, cond_i1):
        """cond is a symbolic i1; returns the concrete 0/1 this path continues with"""
        c = bool_of_i1(cond_i1)
        k = s.known.get(c.get_id())
        if k is not None: return 1 if k else 0
        nc = z3.Not(c)
        models = {}
        def compute():
            rt = s.check(c); models[1] = s.last_model
            if rt == 'unsat' and s.path_known_feasible:
                rf = 'sat'; models[0] = None        # the path is feasible, so the other side must be
            else:
                rf = s.check(nc); models[0] = s.last_model
            if rt == 'unknown' or rf == 'unknown':
                where = s.callstack[-1] if s.callstack else '?'
                if 'sat' in (rt, rf) and s.ctl is not None:
                    # one side is feasible, the other is not decided: report the undecided side as its own
                    # record (it counts against the check's undecided budget) and go on with the feasible side
                    s.side_record('undecided', 'solver returned unknown for one side of a branch in %s (the other side is explored)' % where)
                    return [1] if rt == 'sat' else [0]
                raise EndPath('undecided', 'solver returned unknown at a branch in %s' % where)
            alts = ([1] if rt == 'sat' else []) + ([0] if rf == 'sat' else [])
            if not alts: raise EndPath('infeasible')
            return alts
        d = s.choice(compute)
        s.add_constraint(c if d else nc, models.get(d))
        return d

    def enum_values(s, bv, bits, limit):
        """all feasible values of bv under the path, or None if more than `limit`"""
        vals = []
        excl = []
        while True:
            r = s.check(z3.And(*excl) if excl else None)
            if r == 'unknown': raise EndPath('undecided', 'solver returned unknown while enumerating values')
            if r == 'unsat': break
            v = s.last_model.eval(bv, model_completion=True).as_long()
            vals.append(v)
            if len(vals) > limit: return None
            excl.append(bv != z3.BitVecVal(v, bits))
        if not vals: raise EndPath('infeasible')
        return vals

    def choose_value(s, bv, bits, limit):
        """continue with one feasible concrete value of bv (one path per value); None if there are more than `limit`"""
        v = s.choice(lambda: s.enum_values(bv, bits, limit) or [None])
        if v is not None:
            s.add_constraint(bv == z3.BitVecVal(v, bits))
        return v

    def concretize(s, v, bits, limit=None, what='value'):
        if not is_sym(v): return v
        v = to_bv(v, bits)
        r = s.choose_value(v, bits, limit or s.opts.max_enum)
        if r is None: raise Unsupported('symbolic %s with too many feasible values' % what)
        return r

    # ------------------------------------------------------------------ process forking
    def fork(s, n):
        """continue in n processes; returns the alternative index (0..n-1) of the calling process"""
        ctl = s.ctl
        if ctl is None: raise Unsupported('fork without run control')
        for i in range(1, n):
            with ctl.npaths.get_lock():
                ctl.npaths.value += 1
                over = ctl.npaths.value > ctl.max_paths_total
            if over:
                raise EndPath('path-budget', 'more than %d paths' % ctl.max_paths_total)
            sys.stdout.flush(); sys.stderr.flush()
            pid = os.fork()
            if pid == 0:
                s.children = []
                s.path_id = s.path_id + '.%d' % i
                s.reset_counters()
                return i
            os.waitpid(pid, 0)       # depth-first: one live process per worker
        return 0

    def reset_counters(s):
        s.ninstr_base = s.ninstr
        s.queries = 0; s.solver_time = 0.0; s.unknowns = 0
        s.fnseen = set(); s.asserts = {}; s.violations = []; s.observations = []
        s.t_start = time.time()

    def flush_record_partial(s):
        pass

    def record(s, status, info=None):
        ctl = s.ctl
        rec = {'case': s.case['id'] if s.case else None, 'path': s.path_id, 'status': status, 'info': info,
               'instr': s.ninstr - getattr(s, 'ninstr_base', 0), 'queries': s.queries, 'solver_s': round(s.solver_time, 3),
               'unknowns': s.unknowns, 'covers': s.covers, 'asserts': s.asserts, 'violations': s.violations,
               'obs': s.observations, 'fns': sorted(s.fnseen), 'wall_s': round(time.time() - getattr(s, 't_start', time.time()), 3),
               'nbranch': len(s.path)}
        if os.environ.get('LLSE_RUSAGE'):
            import resource
            ru = resource.getrusage(resource.RUSAGE_SELF)
            rec['minflt'] = ru.ru_minflt; rec['stime'] = ru.ru_stime; rec['utime'] = ru.ru_utime
        if s.stdout: rec['stdout'] = s.stdout.decode('utf-8', 'replace')[-2000:]
        line = (json.dumps(rec) + '\n').encode()
        os.write(ctl.out_fd, line)

    def side_record(s, status, info):
        rec = {'case': s.case['id'] if s.case else None, 'path': str(s.path_id) + '.side%d' % len(s.path), 'status': status, 'info': info,
               'instr': 0, 'queries': 0, 'solver_s': 0, 'unknowns': 0, 'covers': [], 'asserts': {}, 'violations': [], 'obs': [], 'fns': [], 'wall_s': 0, 'nbranch': len(s.path)}
        os.write(s.ctl.out_fd, (json.dumps(rec) + '\n').encode())

    def finish(s, status, info=None):
        """end of this path: write the record, wait for forked children, leave the process"""
        try:
            s.record(status, info)
        finally:
            for pid in s.children:
                try: os.waitpid(pid, 0)
                except ChildProcessError: pass
            sys.stdout.flush(); sys.stderr.flush()
            os._exit(0)

    def model_inputs(s, model):
        out = {}
        for (k, i), var in s.symvars.items():
            v = model.eval(var, model_completion=True).as_long()
            out['%s%d' % (k, i)] = v
        return out

    # ------------------------------------------------------------------ function parsing (from the spike)
    # ---- function parsing
    def parse_fn(s, fn):
        mod = s.mod; lines = mod.lines
        hdr = lines[fn.start]
        toks = tokenize(hdr)
        p = P(toks, s.tc)
        # find the '(' after function name
        while p.next()[1] != fn.name: pass
        p.expect('(')
        regmap = {}
        fp = FnParser(mod, regmap)
        params = []
        fn.vararg = False
        anon = 0
        if not p.accept(')'):
            while True:
                if p.accept('...'):
                    fn.vararg = True; p.expect(')'); break
                t = p.type(); skip_param_attrs(p)
                if p.peek()[0] == 'lid':
                    nm = p.next()[1]
                else:
                    nm = '%' + str(anon)
                if re.fullmatch(r'%\d+', nm): anon = int(nm[1:]) + 1
                params.append((t, fp.reg(nm)))
                if p.accept(')'): break
                p.expect(',')
        else:
            pass
        fn.params = params
        # body
        code = []; labels = {}
        i = fn.start + 1
        # implicit first block label = next anon number
        first_label = '%' + str(anon)
        cur_label = None
        pending_label = first_label
        rawphis = []
        while i < fn.end:
            ln = lines[i]; i += 1
            st = ln.strip()
            if not st or st[0] == ';': continue
            m = re.match(r'^("[^"]*"|[\w.$\-]+):', ln)
            if m and not ln.startswith(' '):
                pending_label = '%' + m.group(1)
                continue
            # join continuation lines
            if st.startswith('switch') and not st.rstrip().endswith(']'):
                while not lines[i].strip().startswith(']'):
                    st += ' ' + lines[i].strip(); i += 1
                st += ' ]'; i += 1
            if ('invoke ' in st) and ' to label ' not in st:
                st += ' ' + lines[i].strip(); i += 1
            if 'landingpad' in st:
                while i < fn.end and re.match(r'^\s+(cleanup|catch|filter)', lines[i]): i += 1
                st = None
            if pending_label is not None:
                labels[pending_label] = len(code); cur_label = pending_label; pending_label = None
                code.append(('label', cur_label))
            if st is None:
                code.append(('landingpad',)); continue
            try:
                ins = s.parse_instr(st, fp)
            except Exception as e:
                raise SyntaxError('in %s line %d: %s\n  %s' % (fn.name, i, e, st[:300]))
            code.append(ins)
        fn.code = code; fn.labels = labels; fn.nregs = None; fn.parsed = True
        # resolve labels -> indexes lazily in exec (use dict)
        fn.nregs = len(regmap) + 8
        fn.blocks = regmap
        s.fixup(fn)

    def parse_call(s, p, fp, dest):
        # after 'call'/'invoke' keyword
        while p.peek()[0] == 'word' and p.peek()[1] in ('fastcc', 'ccc', 'coldcc', 'tailcc', 'cc', 'fast', 'nnan', 'ninf', 'nsz', 'arcp', 'contract', 'afn', 'reassoc', 'preserve_mostcc', 'preserve_allcc', 'preserve_nonecc'):
            w = p.next()[1]
            if w == 'cc': p.next()
        skip_param_attrs(p)
        rt = p.type()
        if rt.k == 'fn': rt = rt.el
        k, v = p.peek()
        if k == 'word' and v == 'asm':
            return ('nop',)
        if k == 'gid':
            p.next(); callee = ('g', v)
        elif k == 'lid':
            p.next(); callee = ('l', fp.reg(v))
        else:
            callee = fp.value(p, PTR)
        p.expect('(')
        args = []
        if not p.accept(')'):
            while True:
                at = p.type(); skip_param_attrs(p)
                if at.k == 'metadata':
                    # metadata arg
                    while p.peek()[1] not in (',', ')'): p.next()
                    args.append((at, ('c', 0)))
                else:
                    args.append((at, fp.value(p, at)))
                if p.accept(')'): break
                p.expect(',')
        return ('call', dest, rt, callee, args)

    def parse_instr(s, st, fp):
        toks = tokenize(st)
        # strip trailing metadata / attributes
        cut = len(toks)
        for j, (k, v) in enumerate(toks):
            if k == 'meta' and j > 0 and toks[j-1][1] == ',' :
                cut = j - 1; break
        toks = [t for t in toks[:cut] if t[0] != 'attr']
        p = P(toks, s.tc)
        dest = None
        if p.peek()[0] == 'lid' and p.peek(1)[1] == '=':
            dest = fp.reg(p.next()[1]); p.next()
        op = p.next()[1]
        if op in ('tail', 'musttail', 'notail'):
            op = p.next()[1]
        if op == 'call':
            return s.parse_call(p, fp, dest)
        if op == 'invoke':
            c = s.parse_call(p, fp, dest)
            p.expect('to'); p.expect('label'); nl = p.next()[1]
            return ('invoke', c, nl)
        if op == 'ret':
            t = p.type()
            if t.k == 'void': return ('ret', None, None)
            return ('ret', t, fp.value(p, t))
        if op == 'br':
            if p.accept('label'):
                return ('br', p.next()[1])
            t = p.type(); c = fp.value(p, t); p.expect(','); p.expect('label'); a = p.next()[1]; p.expect(','); p.expect('label'); b = p.next()[1]
            return ('condbr', c, a, b)
        if op == 'switch':
            t = p.type(); v = fp.value(p, t); p.expect(','); p.expect('label'); dflt = p.next()[1]; p.expect('[')
            cases = {}
            while not p.accept(']'):
                ct = p.type(); cv = fp.value(p, ct); p.expect(','); p.expect('label'); cases[cv[1]] = p.next()[1]
            return ('switch', t, v, dflt, cases)
        if op == 'unreachable': return ('unreachable',)
        if op == 'resume': return ('unreachable',)
        if op == 'phi':
            while p.peek()[1] in ('fast', 'nnan', 'ninf', 'nsz', 'arcp', 'contract', 'afn', 'reassoc'): p.next()
            t = p.type(); inc = {}
            while True:
                p.expect('['); v = fp.value(p, t); p.expect(','); l = p.next()[1]; p.expect(']')
                inc[l] = v
                if not p.accept(','): break
            return ('phi', dest, t, inc)
        if op == 'alloca':
            if p.accept('inalloca'): pass
            t = p.type(); n = ('c', 1); al = 16
            while p.accept(','):
                if p.accept('align'): al = int(p.next()[1])
                elif p.accept('addrspace'): skip_parens(p)
                else:
                    nt = p.type(); n = fp.value(p, nt)
            return ('alloca', dest, t, n, al)
        if op == 'load':
            while p.peek()[1] in ('atomic', 'volatile'): p.next()
            t = p.type(); p.expect(','); pt = p.type(); a = fp.value(p, pt)
            return ('load', dest, t, a)
        if op == 'store':
            while p.peek()[1] in ('atomic', 'volatile'): p.next()
            t = p.type(); v = fp.value(p, t); p.expect(','); pt = p.type(); a = fp.value(p, pt)
            return ('store', t, v, a)
        if op == 'getelementptr':
            while p.peek()[1] in ('inbounds', 'nuw', 'nusw'): p.next()
            bt = p.type(); p.expect(','); pt = p.type(); base = fp.value(p, pt)
            idx = []; its = []
            while p.accept(','):
                it = p.type(); its.append(it); idx.append(fp.value(p, it))
            # fast path: i8 base with single const index
            return ('gep', dest, bt, base, idx, its)
        if op in ('add', 'sub', 'mul', 'udiv', 'sdiv', 'urem', 'srem', 'shl', 'lshr', 'ashr', 'and', 'or', 'xor', 'fadd', 'fsub', 'fmul', 'fdiv', 'frem'):
            while p.peek()[1] in ('nuw', 'nsw', 'exact', 'disjoint', 'fast', 'nnan', 'ninf', 'nsz', 'arcp', 'contract', 'afn', 'reassoc'): p.next()
            t = p.type(); a = fp.value(p, t); p.expect(','); b = fp.value(p, t)
            return ('bin', dest, op, s.tc.resolve(t), a, b)
        if op == 'fneg':
            while p.peek()[1] in ('fast', 'nnan', 'ninf', 'nsz', 'arcp', 'contract', 'afn', 'reassoc'): p.next()
            t = p.type(); a = fp.value(p, t)
            return ('fneg', dest, a)
        if op == 'icmp':
            while p.peek()[1] in ('samesign',): p.next()
            pred = p.next()[1]; t = p.type(); a = fp.value(p, t); p.expect(','); b = fp.value(p, t)
            return ('icmp', dest, pred, s.tc.resolve(t), a, b)
        if op == 'fcmp':
            while p.peek()[1] in ('fast', 'nnan', 'ninf', 'nsz', 'arcp', 'contract', 'afn', 'reassoc'): p.next()
            pred = p.next()[1]; t = p.type(); a = fp.value(p, t); p.expect(','); b = fp.value(p, t)
            return ('fcmp', dest, pred, a, b)
        if op in ('trunc', 'zext', 'sext', 'fptoui', 'fptosi', 'uitofp', 'sitofp', 'fptrunc', 'fpext', 'ptrtoint', 'inttoptr', 'bitcast', 'addrspacecast'):
            while p.peek()[1] in ('nuw', 'nsw', 'nneg'): p.next()
            ft = p.type(); v = fp.value(p, ft); p.expect('to'); tt = p.type()
            return ('cast', dest, op, ft, v, tt)
        if op == 'select':
            while p.peek()[1] in ('fast', 'nnan', 'ninf', 'nsz', 'arcp', 'contract', 'afn', 'reassoc'): p.next()
            ct = p.type(); c = fp.value(p, ct); p.expect(','); t = p.type(); a = fp.value(p, t); p.expect(','); t2 = p.type(); b = fp.value(p, t2)
            return ('select', dest, s.tc.resolve(ct), c, s.tc.resolve(t), a, b)
        if op == 'extractvalue':
            t = p.type(); v = fp.value(p, t); idx = []
            while p.accept(','): idx.append(int(p.next()[1]))
            return ('extractvalue', dest, v, idx)
        if op == 'insertvalue':
            t = p.type(); v = fp.value(p, t); p.expect(','); et = p.type(); e = fp.value(p, et); idx = []
            while p.accept(','): idx.append(int(p.next()[1]))
            return ('insertvalue', dest, v, e, idx)
        if op == 'extractelement':
            t = p.type(); v = fp.value(p, t); p.expect(','); it = p.type(); i = fp.value(p, it)
            return ('extractelement', dest, v, i)
        if op == 'insertelement':
            t = p.type(); v = fp.value(p, t); p.expect(','); et = p.type(); e = fp.value(p, et); p.expect(','); it = p.type(); i = fp.value(p, it)
            return ('insertelement', dest, v, e, i)
        if op == 'shufflevector':
            t = p.type(); a = fp.value(p, t); p.expect(','); t2 = p.type(); b = fp.value(p, t2); p.expect(','); mt = p.type(); m = fp.value(p, mt)
            return ('shufflevector', dest, a, b, m, s.tc.resolve(mt).n)
        if op == 'freeze':
            t = p.type(); v = fp.value(p, t)
            return ('freeze', dest, v)
        if op == 'atomicrmw':
            p.accept('volatile'); aop = p.next()[1]; pt = p.type(); a = fp.value(p, pt); p.expect(','); t = p.type(); v = fp.value(p, t)
            return ('atomicrmw', dest, aop, a, s.tc.resolve(t), v)
        if op == 'cmpxchg':
            p.accept('weak'); p.accept('volatile'); pt = p.type(); a = fp.value(p, pt); p.expect(','); t = p.type(); c = fp.value(p, t); p.expect(','); t2 = p.type(); n = fp.value(p, t2)
            return ('cmpxchg', dest, a, s.tc.resolve(t), c, n)
        if op == 'fence': return ('nop',)
        raise NotImplementedError('instr ' + op)

    def fixup(s, fn):
        """resolve global operands to constant addresses (except direct callees)"""
        ga = s.global_addr
        def fx(x):
            if isinstance(x, tuple):
                if len(x) == 2 and x[0] == 'g' and isinstance(x[1], str):
                    return ('c', ga(x[1]))
                if x and x[0] == 'call':
                    return ('call', x[1], x[2], x[3] if x[3][0] == 'g' else fx(x[3]), [(t, fx(a)) for t, a in x[4]])
                return tuple(fx(e) for e in x)
            if isinstance(x, list):
                return [fx(e) for e in x]
            if isinstance(x, dict):
                return {k: fx(v) for k, v in x.items()}
            return x
        fn.code = [fx(ins) for ins in fn.code]
        fn.ispanic = any(p in fn.name for p in PANIC_PATTERNS)

    # ------------------------------------------------------------------ operand evaluation
    def ev(s, regs, op):
        k = op[0]
        if k == 'l': return regs[op[1]]
        if k == 'c': return op[1]
        if k == 'g': return s.global_addr(op[1])
        if k == 'agg': return [s.ev(regs, e) for e in op[1]]
        if k == 'gep':
            _, bt, base, idx = op
            return s.gep(bt, s.ev(regs, base), [s.ev(regs, i) for i in idx], [I64] * len(idx))
        if k == 'cast':
            _, cop, ft, v, tt = op
            return s.cast(cop, ft, s.ev(regs, v), tt)
        if k == 'bin':
            _, bop, t1, a, b = op
            return s.binop(bop, s.tc.resolve(t1), s.ev(regs, a), s.ev(regs, b))
        raise NotImplementedError(op)

    # ------------------------------------------------------------------ calls
    def resolve_callee(s, name):
        """-> ('fn', Function) | ('hook', callable) | ('ext', name)"""
        r = s.callees.get(name)
        if r is not None: return r
        h = HOOKS.get(name)
        if h is not None: r = ('hook', h)
        else:
            fn = s.mod.funcs.get(name)
            if fn is None:
                tgt = s.mod.aliases.get(name)
                if tgt and tgt in s.mod.funcs: fn = s.mod.funcs[tgt]
            if fn is None: r = ('ext', name)
            else:
                if not fn.parsed: s.parse_fn(fn)
                r = ('fn', fn)
        s.callees[name] = r
        return r

    def call(s, name, args):
        k, tgt = s.resolve_callee(name)
        if k == 'hook': return tgt(s, args)
        if k == 'ext': return s.external(name, args)
        return s.run(tgt, args)

    def panic(s, name, args):
        loc = None
        try:
            # most panic entry points take a &'static Location as their last argument
            for a in reversed(args):
                if isinstance(a, int) and a > 0x10000:
                    p = s.load(a, PTR); n = s.load(a + 8, I64); line = s.load(a + 16, I32)
                    if isinstance(p, int) and isinstance(n, int) and 0 < n < 300:
                        o = s.mem.find(p)
                        txt = bytes(o.data[p - o.base:p - o.base + n]).decode('utf-8', 'replace')
                        if '.rs' in txt: loc = '%s:%d' % (txt, line); break
        except Exception:
            pass
        raise Panic('%s at %s' % (demangle(name), loc))

    def run(s, fn, args):
        """execute IR function `fn` to completion with an explicit frame stack (no Python recursion per IR call)"""
        if fn.ispanic: s.panic(fn.name, args)
        ev = s.ev
        stack = []            # saved caller frames: (fn, code, labels, regs, pc, prev, cur, allocas, dest)
        base_depth = len(s.callstack)
        code = fn.code; labels = fn.labels
        regs = [None] * fn.nregs
        for (t, r), a in zip(fn.params, args): regs[r] = a
        pc = 0; prev = None; cur = None; allocas = []
        s.callstack.append(fn.name); s.fnseen.add(fn.name)
        budget = s.budget_abs
        ninstr = s.ninstr
        while True:
            ins = code[pc]; pc += 1
            op = ins[0]
            ninstr += 1
            if op == 'label':
                prev = cur; cur = ins[1]
                if code[pc][0] == 'phi':
                    vals = []
                    q = pc
                    while code[q][0] == 'phi':
                        pi = code[q]
                        vals.append((pi[1], ev(regs, pi[3][prev])))
                        q += 1
                    for d, v in vals: regs[d] = v
                    ninstr += q - pc
                    pc = q
                if ninstr > budget:
                    s.ninstr = ninstr
                    raise EndPath('bound-exceeded', {'msg': 'instruction budget exhausted in %s' % demangle(fn.name), 'inputs': s.panic_inputs()})
                continue
            if op == 'load':
                a = ins[3]
                a = regs[a[1]] if a[0] == 'l' else ev(regs, a)
                regs[ins[1]] = s.load(a, ins[2]); continue
            if op == 'store':
                a = ins[3]; v = ins[2]
                a = regs[a[1]] if a[0] == 'l' else ev(regs, a)
                v = regs[v[1]] if v[0] == 'l' else (v[1] if v[0] == 'c' else ev(regs, v))
                s.store(a, ins[1], v); continue
            if op == 'gep':
                _, d, bt, base, idx, its = ins
                regs[d] = s.gep(bt, ev(regs, base), [ev(regs, i) for i in idx], its); continue
            if op == 'icmp':
                regs[ins[1]] = s.icmp(ins[2], ins[3], ev(regs, ins[4]), ev(regs, ins[5])); continue
            if op == 'bin':
                regs[ins[1]] = s.binop(ins[2], ins[3], ev(regs, ins[4]), ev(regs, ins[5])); continue
            if op == 'br':
                pc = labels[ins[1]]; continue
            if op == 'condbr':
                c = ev(regs, ins[1])
                if is_sym(c):
                    s.ninstr = ninstr
                    c = s.branch(c)
                pc = labels[ins[2] if c & 1 else ins[3]]; continue
            if op == 'call' or op == 'invoke':
                c = ins if op == 'call' else ins[1]
                _, d, rt, callee, cargs = c
                if callee[0] == 'g': name = callee[1]
                else:
                    a = ev(regs, callee)
                    if is_sym(a):
                        s.ninstr = ninstr
                        a = s.concretize(a, 64, what='function pointer')
                    name = s.addr2fn.get(a)
                    if name is None: raise MemError('indirect call to 0x%x' % a)
                argv = [ev(regs, a) for _, a in cargs]
                s.ninstr = ninstr
                if name.startswith('@llvm.'):
                    r = s.intrinsic(name, argv, rt, [t for t, _ in cargs])
                else:
                    k, tgt = s.resolve_callee(name)
                    if k == 'fn':
                        if tgt.ispanic: s.panic(tgt.name, argv)
                        if len(stack) > 4000: raise Unsupported('call depth > 4000')
                        if op == 'invoke': pc = labels[ins[2]]
                        stack.append((fn, code, labels, regs, pc, prev, cur, allocas, d))
                        fn = tgt; code = fn.code; labels = fn.labels
                        regs = [None] * fn.nregs
                        for (t, r), a in zip(fn.params, argv): regs[r] = a
                        pc = 0; prev = None; cur = None; allocas = []
                        s.callstack.append(fn.name); s.fnseen.add(fn.name)
                        continue
                    elif k == 'hook': r = tgt(s, argv)
                    else: r = s.external(name, argv)
                ninstr = s.ninstr
                if d is not None: regs[d] = r
                if op == 'invoke': pc = labels[ins[2]]
                continue
            if op == 'ret':
                v = None if ins[1] is None else ev(regs, ins[2])
                for o in allocas: o.live = False
                s.callstack.pop()
                if not stack:
                    s.ninstr = ninstr
                    return v
                fn, code, labels, regs, pc, prev, cur, allocas, d = stack.pop()
                if d is not None: regs[d] = v
                continue
            if op == 'cast':
                regs[ins[1]] = s.cast(ins[2], ins[3], ev(regs, ins[4]), ins[5]); continue
            if op == 'select':
                _, d, ct, c, t, a, b = ins
                cv = ev(regs, c)
                if ct.k == 'vector':
                    av = ev(regs, a); bv = ev(regs, b)
                    regs[d] = [s.sym_select(cc, s.tc.resolve(t.el), x, y) if is_sym(cc) else (x if (cc & 1) else y) for cc, x, y in zip(cv, av, bv)]
                elif is_sym(cv):
                    regs[d] = s.sym_select(cv, t, ev(regs, a), ev(regs, b))
                else:
                    regs[d] = ev(regs, a) if cv & 1 else ev(regs, b)
                continue
            if op == 'alloca':
                _, d, t, n, al = ins
                cnt = ev(regs, n)
                if is_sym(cnt): raise Unsupported('symbolic alloca size')
                o = s.mem.alloc(s.tc.size(t) * cnt, al, 'stack'); allocas.append(o)
                regs[d] = o.base; continue
            if op == 'switch':
                _, t, v, dflt, cases = ins
                x = ev(regs, v)
                if is_sym(x):
                    s.ninstr = ninstr
                    x = s.switch_sym(x, s.tc.resolve(t).bits, cases)
                pc = labels[cases.get(x, dflt)]; continue
            if op == 'extractvalue':
                v = ev(regs, ins[2])
                for i in ins[3]: v = v[i]
                regs[ins[1]] = v; continue
            if op == 'insertvalue':
                v = ev(regs, ins[2]); e = ev(regs, ins[3])
                regs[ins[1]] = ins_val(v, e, ins[4]); continue
            if op == 'fcmp':
                regs[ins[1]] = s.fcmp(ins[2], ev(regs, ins[3]), ev(regs, ins[4])); continue
            if op == 'fneg':
                a = ev(regs, ins[2])
                regs[ins[1]] = z3.fpNeg(to_fp(a)) if is_sym(a) else -a; continue
            if op == 'freeze':
                regs[ins[1]] = ev(regs, ins[2]); continue
            if op == 'unreachable':
                raise Panic('unreachable executed in ' + demangle(fn.name))
            if op == 'atomicrmw':
                _, d, aop, a, t, v = ins
                addr = ev(regs, a); old = s.load(addr, t); x = ev(regs, v)
                if is_sym(old) or is_sym(x): raise Unsupported('symbolic atomicrmw')
                if aop == 'xchg': new = x
                elif aop == 'add': new = s.binop('add', t, old, x)
                elif aop == 'sub': new = s.binop('sub', t, old, x)
                elif aop == 'and': new = old & x
                elif aop == 'or': new = old | x
                elif aop == 'xor': new = old ^ x
                elif aop == 'umax': new = max(old, x)
                elif aop == 'umin': new = min(old, x)
                else: raise NotImplementedError(aop)
                s.store(addr, t, new); regs[d] = old; continue
            if op == 'cmpxchg':
                _, d, a, t, c, n = ins
                addr = ev(regs, a); old = s.load(addr, t); cv = ev(regs, c)
                if is_sym(old) or is_sym(cv): raise Unsupported('symbolic cmpxchg')
                if old == cv:
                    s.store(addr, t, ev(regs, n)); regs[d] = [old, 1]
                else: regs[d] = [old, 0]
                continue
            if op == 'insertelement':
                i = ev(regs, ins[4])
                if is_sym(i): raise Unsupported('symbolic insertelement index')
                v = list(ev(regs, ins[2])); v[i] = ev(regs, ins[3]); regs[ins[1]] = v; continue
            if op == 'extractelement':
                i = ev(regs, ins[3])
                if is_sym(i): raise Unsupported('symbolic extractelement index')
                regs[ins[1]] = ev(regs, ins[2])[i]; continue
            if op == 'shufflevector':
                a = ev(regs, ins[2]); b = ev(regs, ins[3]); m = ev(regs, ins[4])
                ab = list(a) + list(b)
                regs[ins[1]] = [ab[i] for i in m]; continue
            if op == 'nop': continue
            if op == 'landingpad':
                raise Panic('landingpad reached')
            if op == 'phi':
                raise RuntimeError('stray phi')
            raise NotImplementedError(op)

    def sym_select(s, c, t, a, b):
        t = s.tc.resolve(t)
        cb = bool_of_i1(c)
        k = s.known.get(cb.get_id())
        if k is not None: return a if k else b
        if t.k == 'double':
            return z3.If(cb, to_fp(a), to_fp(b))
        if t.k == 'int':
            return norm(z3.If(cb, to_bv(a, t.bits), to_bv(b, t.bits)))
        if t.k == 'ptr':
            if not is_sym(a) and not is_sym(b) and a == b: return a
            if is_fp(a) or is_fp(b): return z3.If(cb, to_fp(a), to_fp(b))
            return norm(z3.If(cb, to_bv(a, 64), to_bv(b, 64)))
        if t.k == 'struct':
            return [s.sym_select(c, ft, x, y) for ft, x, y in zip(t.fields, a, b)]
        if t.k in ('array', 'vector'):
            return [s.sym_select(c, t.el, x, y) for x, y in zip(a, b)]
        raise Unsupported('symbolic select of %r' % t)

    def switch_sym(s, x, bits, cases):
        """one path per feasible target of a switch on a symbolic value; returns a representative value"""
        for cv in cases:
            c = x == z3.BitVecVal(cv, bits)
            if s.known.get(c.get_id()): return cv
        def compute():
            found = []; excl = []; dflt_ok = False
            while True:
                r = s.check(z3.And(*excl) if excl else None)
                if r == 'unknown': raise EndPath('undecided', 'solver unknown in switch')
                if r == 'unsat': break
                v = s.last_model.eval(x, model_completion=True).as_long()
                if v in cases:
                    found.append(v); excl.append(x != z3.BitVecVal(v, bits))
                else:
                    dflt_ok = True
                    excl.append(z3.Or(*[x == z3.BitVecVal(cv, bits) for cv in cases]))
            alts = found + ([-1] if dflt_ok else [])
            if not alts: raise EndPath('infeasible')
            return alts
        v = s.choice(compute)
        if v >= 0:
            s.add_constraint(x == z3.BitVecVal(v, bits))
            return v
        s.add_constraint(z3.And(*[x != z3.BitVecVal(cv, bits) for cv in cases]))
        return -1

    def do_call(s, regs, ins):
        _, d, rt, callee, args = ins
        if callee[0] == 'g': name = callee[1]
        else:
            a = s.ev(regs, callee)
            if is_sym(a):
                a = s.concretize(a, 64, what='function pointer')
            name = s.addr2fn.get(a)
            if name is None: raise MemError('indirect call to 0x%x' % a)
        ev = s.ev
        argv = [ev(regs, a) for _, a in args]
        if name.startswith('@llvm.'):
            return s.intrinsic(name, argv, rt, [t for t, _ in args])
        return s.call(name, argv)

    # ------------------------------------------------------------------ intrinsics
    def intrinsic(s, name, a, rt, ats):
        n = name[6:]
        base = n.split('.')[0]
        if base in ('lifetime', 'dbg', 'experimental', 'assume', 'prefetch', 'donothing'):
            return None
        if base in ('memcpy', 'memmove'):
            s.memcpy(a[0], a[1], a[2]); return None
        if base == 'memset':
            dst, val, ln = a[0], a[1], a[2]
            if is_sym(ln): ln = s.concretize(ln, 64, 64, 'memset length')
            if is_sym(dst): raise Unsupported('memset with symbolic pointer')
            if ln:
                o = s.mem.find(dst); off = dst - o.base
                if off + ln > o.size: raise MemError('memset oob')
                if is_sym(val):
                    if o.sym is None: o.sym = {}
                    for i in range(off, off + ln): o.sym[i] = (val, 0)
                else:
                    o.data[off:off + ln] = bytes([val & 0xff]) * ln
                    if o.sym:
                        for i in range(off, off + ln): o.sym.pop(i, None)
            return None
        rtt = s.tc.resolve(rt)
        if rtt.k == 'vector':
            el = rtt.el
            return [s.intrinsic(name, [x[i] if isinstance(x, list) else x for x in a], el, [s.tc.resolve(t).el if s.tc.resolve(t).k == 'vector' else t for t in ats]) for i in range(rtt.n)]
        bits = rtt.bits if rtt.k == 'int' else None
        anysym = any(is_sym(x) for x in a)
        if base in ('umax', 'umin', 'smax', 'smin'):
            x, y = a
            if anysym:
                x = to_bv(x, bits); y = to_bv(y, bits)
                c = {'umax': z3.UGT(x, y), 'umin': z3.ULT(x, y), 'smax': x > y, 'smin': x < y}[base]
                return norm(z3.If(c, x, y))
            if base == 'umax': return max(x, y)
            if base == 'umin': return min(x, y)
            sxx, syy = sx(x, bits), sx(y, bits)
            r = max(sxx, syy) if base == 'smax' else min(sxx, syy)
            return r & ((1 << bits) - 1)
        if base == 'abs':
            x = a[0]
            if is_sym(x):
                return norm(z3.If(x < z3.BitVecVal(0, bits), -x, x))
            return abs(sx(x, bits)) & ((1 << bits) - 1)
        if base in ('ctlz', 'cttz', 'ctpop', 'bswap', 'bitreverse'):
            x = a[0]
            if is_sym(x):
                if base == 'ctpop':
                    r = z3.BitVecVal(0, bits)
                    for i in range(bits): r = r + z3.ZeroExt(bits - 1, z3.Extract(i, i, x))
                    return norm(r)
                if base == 'cttz':
                    r = z3.BitVecVal(bits, bits)
                    for i in range(bits - 1, -1, -1):
                        r = z3.If(z3.Extract(i, i, x) == BV1_1, z3.BitVecVal(i, bits), r)
                    return norm(r)
                if base == 'ctlz':
                    r = z3.BitVecVal(bits, bits)
                    for i in range(bits):
                        r = z3.If(z3.Extract(i, i, x) == BV1_1, z3.BitVecVal(bits - 1 - i, bits), r)
                    return norm(r)
                if base == 'bswap':
                    return norm(z3.Concat(*[z3.Extract(i * 8 + 7, i * 8, x) for i in range(bits // 8)]))
                raise Unsupported('symbolic bitreverse')
            if base == 'ctpop': return bin(x).count('1')
            if base == 'ctlz': return bits - x.bit_length()
            if base == 'cttz': return bits if x == 0 else (x & -x).bit_length() - 1
            if base == 'bswap': return int.from_bytes(x.to_bytes(bits // 8, 'little'), 'big')
            if base == 'bitreverse': return int(format(x, '0%db' % bits)[::-1], 2)
        if base in ('fshl', 'fshr'):
            x, y, sh = a
            if anysym:
                x = to_bv(x, bits); y = to_bv(y, bits); sh = to_bv(sh, bits)
                cat = z3.Concat(x, y); shw = z3.ZeroExt(bits, z3.URem(sh, z3.BitVecVal(bits, bits)))
                if base == 'fshl': return norm(z3.Extract(2 * bits - 1, bits, cat << shw))
                return norm(z3.Extract(bits - 1, 0, z3.LShR(cat, shw)))
            sh %= bits
            cat = (x << bits) | y
            if base == 'fshl': return (cat >> (bits - sh)) & ((1 << bits) - 1) if sh else x
            return (cat >> sh) & ((1 << bits) - 1)
        if base in ('uadd', 'usub', 'sadd', 'ssub', 'umul', 'smul'):
            kind = n.split('.')[1]
            x, y = a
            ob = s.tc.resolve(ats[0]).bits
            mask = (1 << ob) - 1
            signed = base[0] == 's'; o3 = base[1:]
            lo, hi = (-(1 << (ob - 1)), (1 << (ob - 1)) - 1) if signed else (0, mask)
            if anysym:
                x = to_bv(x, ob); y = to_bv(y, ob)
                w = 2 * ob if o3 == 'mul' else ob + 1
                ext = z3.SignExt if signed else z3.ZeroExt
                xe = ext(w - ob, x); ye = ext(w - ob, y)
                full = {'add': xe + ye, 'sub': xe - ye, 'mul': xe * ye}[o3]
                res = z3.Extract(ob - 1, 0, full)
                if signed: ovf = z3.Or(full < z3.BitVecVal(lo, w), full > z3.BitVecVal(hi, w))
                elif o3 == 'sub': ovf = z3.ULT(x, y)
                else: ovf = z3.UGT(full, z3.BitVecVal(hi, w))
                if kind == 'with': return [norm(res), i1_of_bool(ovf)]
                if signed:
                    sat = z3.If(full < z3.BitVecVal(lo, w), z3.BitVecVal(lo & mask, ob), z3.If(full > z3.BitVecVal(hi, w), z3.BitVecVal(hi, ob), res))
                elif o3 == 'sub': sat = z3.If(ovf, z3.BitVecVal(0, ob), res)
                else: sat = z3.If(ovf, z3.BitVecVal(hi, ob), res)
                return norm(sat)
            xx, yy = (sx(x, ob), sx(y, ob)) if signed else (x, y)
            full = {'add': xx + yy, 'sub': xx - yy, 'mul': xx * yy}[o3]
            ovf = not (lo <= full <= hi)
            if kind == 'with': return [full & mask, int(ovf)]
            if kind == 'sat': return (min(max(full, lo), hi)) & mask
        if base in ('scmp', 'ucmp'):
            ob = s.tc.resolve(ats[0]).bits
            x, y = a
            if anysym:
                x = to_bv(x, ob); y = to_bv(y, ob)
                lt = (x < y) if base == 'scmp' else z3.ULT(x, y)
                return norm(z3.If(x == y, z3.BitVecVal(0, bits), z3.If(lt, z3.BitVecVal((1 << bits) - 1, bits), z3.BitVecVal(1, bits))))
            if base == 'scmp': x, y = sx(x, ob), sx(y, ob)
            r = (x > y) - (x < y)
            return r & ((1 << bits) - 1)
        if n.startswith('fptoui.sat') or n.startswith('fptosi.sat'):
            x = a[0]
            signed = n.startswith('fptosi')
            lo, hi = (-(1 << (bits - 1)), (1 << (bits - 1)) - 1) if signed else (0, (1 << bits) - 1)
            if is_sym(x):
                x = to_fp(x)
                flo = fp_const(float(lo)); fhi = fp_const(float(hi + 1))   # hi+1 is a power of two: exact
                conv = z3.fpToSBV(z3.RTZ(), x, z3.BitVecSort(bits)) if signed else z3.fpToUBV(z3.RTZ(), x, z3.BitVecSort(bits))
                r = z3.If(z3.fpIsNaN(x), z3.BitVecVal(0, bits),
                          z3.If(z3.fpGEQ(x, fhi), z3.BitVecVal(hi, bits),
                                z3.If(z3.fpLEQ(x, flo), z3.BitVecVal(lo & ((1 << bits) - 1), bits), conv)))
                return norm(r)
            if x != x: return 0
            if math.isinf(x): r = hi if x > 0 else lo
            else: r = min(max(int(x), lo), hi)
            return r & ((1 << bits) - 1)
        if base == 'fabs':
            return z3.fpAbs(to_fp(a[0])) if is_sym(a[0]) else abs(a[0])
        if base == 'copysign':
            x, y = a
            if anysym:
                xb = z3.fpToIEEEBV(to_fp(x)) if is_sym(x) else z3.BitVecVal(f64_bits(x), 64)
                yb = z3.fpToIEEEBV(to_fp(y)) if is_sym(y) else z3.BitVecVal(f64_bits(y), 64)
                return norm(z3.fpBVToFP(z3.Concat(z3.Extract(63, 63, yb), z3.Extract(62, 0, xb)), F64))
            return math.copysign(x, y)
        if base in ('floor', 'ceil', 'trunc', 'round', 'rint', 'nearbyint', 'roundeven'):
            x = a[0]
            if is_sym(x):
                rm = {'floor': z3.RTN(), 'ceil': z3.RTP(), 'trunc': z3.RTZ(), 'round': z3.RNA(), 'rint': RNE, 'nearbyint': RNE, 'roundeven': RNE}[base]
                return z3.fpRoundToIntegral(rm, to_fp(x))
            if x != x or math.isinf(x): return x
            if abs(x) >= 2.0 ** 52: return x
            if base == 'floor': r = float(math.floor(x))
            elif base == 'ceil': r = float(math.ceil(x))
            elif base == 'trunc': r = float(math.trunc(x))
            elif base == 'round': r = float(math.floor(abs(x) + 0.5)) if abs(x) + 0.5 != abs(x) + 1 else abs(x)
            else: r = float(round(x))
            if base == 'round':
                ax = abs(x); f = math.floor(ax); r = f + 1.0 if ax - f >= 0.5 else f
            return math.copysign(r, x)
        if base == 'sqrt':
            x = a[0]
            if is_sym(x): return z3.fpSqrt(RNE, to_fp(x))
            return math.sqrt(x) if x >= 0 else (x if x == 0 else math.nan)
        if base == 'pow':
            x, y = a
            if anysym: raise Unsupported('symbolic pow')
            return libm.pow(x, y)
        if base == 'powi':
            x, e = a
            if anysym: raise Unsupported('symbolic powi')
            return powidf2(x, sx(e, 32))
        if base in ('fmuladd', 'fma'):
            x, y, z = a
            if anysym: return z3.fpFMA(RNE, to_fp(x), to_fp(y), to_fp(z)) if base == 'fma' else z3.fpAdd(RNE, z3.fpMul(RNE, to_fp(x), to_fp(y)), to_fp(z))
            return x * y + z if base == 'fmuladd' else math.fma(x, y, z) if hasattr(math, 'fma') else x * y + z
        if n.startswith('load.relative'):
            p, off = a
            if is_sym(p) or is_sym(off): raise Unsupported('symbolic load.relative')
            v = s.load((p + sx(off, 64)) & M64, I32)
            if is_sym(v): raise Unsupported('symbolic load.relative')
            return (p + sx(v, 32)) & M64
        if base == 'is' and n.startswith('is.fpclass'):
            return s.fpclass(a[0], a[1])
        if base == 'is' and n.startswith('is.constant'): return 0
        if base == 'expect': return a[0]
        if base == 'trap': raise Panic('llvm.trap in ' + demangle(s.callstack[-1] if s.callstack else '?'))
        if base == 'threadlocal': return a[0]
        if base in ('maxnum', 'minnum'):
            x, y = a
            if anysym:
                x = to_fp(x); y = to_fp(y)
                pick = z3.fpGT(x, y) if base == 'maxnum' else z3.fpLT(x, y)
                return z3.If(z3.fpIsNaN(x), y, z3.If(z3.fpIsNaN(y), x, z3.If(pick, x, y)))
            if x != x: return y
            if y != y: return x
            return max(x, y) if base == 'maxnum' else min(x, y)
        if n.startswith('x86.sse2.pause') or n.startswith('x86.avx.vzeroupper'): return None
        if base in ('exp', 'log', 'sin', 'cos', 'exp2', 'log2', 'log10'):
            x = a[0]
            if is_sym(x): raise Unsupported('symbolic ' + base)
            return getattr(libm, base)(x)
        raise NotImplementedError('intrinsic ' + name)

    def fpclass(s, x, mask):
        if is_sym(x):
            x = to_fp(x)
            conds = []
            neg = z3.fpIsNegative(x); pos = z3.Not(neg)
            tests = [z3.fpIsNaN(x), z3.fpIsNaN(x), z3.And(z3.fpIsInf(x), neg), z3.And(z3.fpIsNormal(x), neg), z3.And(z3.fpIsSubnormal(x), neg),
                     z3.And(z3.fpIsZero(x), neg), z3.And(z3.fpIsZero(x), pos), z3.And(z3.fpIsSubnormal(x), pos), z3.And(z3.fpIsNormal(x), pos), z3.And(z3.fpIsInf(x), pos)]
            for b in range(10):
                if mask >> b & 1: conds.append(tests[b])
            return i1_of_bool(z3.Or(*conds) if conds else z3.BoolVal(False))
        if x != x: return int(bool(mask & 3))
        neg = math.copysign(1.0, x) < 0
        if math.isinf(x): b = 2 if neg else 9
        elif x == 0: b = 5 if neg else 6
        elif abs(x) < 2.2250738585072014e-308: b = 4 if neg else 7
        else: b = 3 if neg else 8
        return (mask >> b) & 1

    # ------------------------------------------------------------------ libc model
    def cstr(s, p, n):
        o = s.mem.find(p); off = p - o.base
        if s.has_sym_bytes(p, n): raise Unsupported('symbolic bytes in harness string')
        return bytes(o.data[off:off + n])

    def external(s, name, a):
        n = name[1:]
        if n in ('malloc', '__rust_alloc', '__rdl_alloc'):
            if is_sym(a[0]): a[0] = s.concretize(a[0], 64, 32, 'allocation size')
            return s.mem.alloc(a[0], 16).base
        if n == 'calloc':
            return s.mem.alloc(a[0] * a[1], 16).base
        if n == 'posix_memalign':
            o = s.mem.alloc(a[2], max(a[1], 16)); s.store(a[0], PTR, o.base); return 0
        if n == 'realloc':
            if is_sym(a[1]): a[1] = s.concretize(a[1], 64, 32, 'allocation size')
            if a[0] == 0: return s.mem.alloc(a[1], 16).base
            old = s.mem.find(a[0]); o = s.mem.alloc(a[1], 16)
            s.memcpy(o.base, old.base, min(old.size, a[1])); old.live = False
            return o.base
        if n == 'free':
            if a[0]: s.mem.find(a[0]).live = False
            return None
        if n in ('memcmp', 'bcmp'):
            x, y, ln = a
            if is_sym(ln): ln = s.concretize(ln, 64, 64, 'memcmp length')
            if ln == 0: return 0
            if is_sym(x): x = s.concretize(x, 64, what='memcmp pointer')
            if is_sym(y): y = s.concretize(y, 64, what='memcmp pointer')
            if s.has_sym_bytes(x, ln) or s.has_sym_bytes(y, ln):
                r = z3.BitVecVal(0, 32)
                for i in range(ln - 1, -1, -1):
                    bx = s.load(x + i, I8); by = s.load(y + i, I8)
                    if not is_sym(bx) and not is_sym(by):
                        if bx == by: continue
                        r = z3.BitVecVal(0xFFFFFFFF if bx < by else 1, 32); continue
                    bx = to_bv(bx, 8); by = to_bv(by, 8)
                    r = z3.If(bx == by, r, z3.If(z3.ULT(bx, by), z3.BitVecVal(0xFFFFFFFF, 32), z3.BitVecVal(1, 32)))
                return norm(r)
            ox = s.mem.find(x); oy = s.mem.find(y)
            if x - ox.base + ln > ox.size or y - oy.base + ln > oy.size: raise MemError('memcmp oob')
            bx = bytes(ox.data[x - ox.base:x - ox.base + ln]); by = bytes(oy.data[y - oy.base:y - oy.base + ln])
            r = (bx > by) - (bx < by)
            return r & 0xFFFFFFFF
        if n == 'strlen':
            o = s.mem.find(a[0]); off = a[0] - o.base
            return o.data.index(0, off) - off
        if n == 'memchr':
            raise Unsupported('libc memchr')
        if n == 'getrandom':
            buf, ln = a[0], a[1]
            o = s.mem.find(buf); off = buf - o.base
            o.data[off:off + ln] = bytes((i * 37 + 11) & 0xff for i in range(ln))
            return ln
        if n == '__cxa_thread_atexit_impl': return 0
        if n == '__errno_location':
            if s.errno_obj is None: s.errno_obj = s.mem.alloc(8, 8)
            return s.errno_obj.base
        if n == 'pthread_key_create':
            k = len(s.tls_keys) + 1; s.tls_keys[k] = 0; s.store(a[0], I32, k); return 0
        if n == 'pthread_getspecific': return s.tls_keys.get(a[0], 0)
        if n == 'pthread_setspecific': s.tls_keys[a[0]] = a[1]; return 0
        if n == 'pthread_key_delete': return 0
        if n == 'pthread_self': return 1
        if n == 'gettid': return 1
        if n == 'getenv': return 0
        if n == 'sysconf': return 4096
        if n == 'write' or n == 'writev':
            if n == 'write':
                fd, buf, ln = a
                if ln: s.stdout += s.cstr(buf, ln)
                return ln
            raise Unsupported('writev')
        if n == 'abort': raise Panic('abort')
        if n == 'exit': raise EndPath('exit', 'exit(%s)' % a[0])
        if n in ('sin', 'cos', 'tan', 'asin', 'acos', 'atan', 'sinh', 'cosh', 'tanh', 'log1p', 'expm1', 'tgamma', 'exp', 'log', 'cbrt', 'asinh', 'acosh', 'atanh'):
            if is_sym(a[0]): raise Unsupported('symbolic libm ' + n)
            return getattr(libm, n)(a[0])
        if n in ('atan2', 'hypot', 'pow', 'fmod'):
            if is_sym(a[0]) or is_sym(a[1]): raise Unsupported('symbolic libm ' + n)
            return getattr(libm, n)(a[0], a[1])
        if n == 'clock_gettime':
            s.store(a[1], I64, 1700000000); s.store(a[1] + 8, I64, 0); return 0
        if any(p in n for p in PANIC_PATTERNS): raise Panic(n)
        raise Unsupported('external function ' + name)

def ins_val(v, e, idx):
    v = list(v)
    if len(idx) == 1: v[idx[0]] = e
    else: v[idx[0]] = ins_val(v[idx[0]], e, idx[1:])
    return v

_dm = re.compile(r'(\d+)')
def demangle(name):
    """rough legacy-mangling demangler: _ZN4core9panicking9panic_fmt17h...E -> core::panicking::panic_fmt"""
    n = name.lstrip('@').strip('"')
    if n.startswith('_R'):
        # v0 mangling: collect the length-prefixed identifiers (rough, for diagnostics only)
        parts = []; i = 2
        while i < len(n):
            if n[i].isdigit():
                j = i
                while j < len(n) and n[j].isdigit(): j += 1
                ln = int(n[i:j])
                if j < len(n) and n[j] == '_': j += 1
                if 0 < ln <= len(n) - j:
                    parts.append(n[j:j + ln]); i = j + ln; continue
                i = j
            else:
                i += 1
        return '::'.join(p for p in parts if p) or n
    if not n.startswith('_ZN'): return n
    i = 3; parts = []
    while i < len(n) and n[i].isdigit():
        j = i
        while n[j].isdigit(): j += 1
        ln = int(n[i:j]); parts.append(n[j:j + ln]); i = j + ln
    if parts and re.fullmatch(r'h[0-9a-f]{16}', parts[-1]): parts.pop()
    r = '::'.join(parts)
    for a, b in (('$LT$', '<'), ('$GT$', '>'), ('$u20$', ' '), ('$RF$', '&'), ('$LP$', '('), ('$RP$', ')'), ('$C$', ','), ('$u7b$', '{'), ('$u7d$', '}'), ('..', '::'), ('$BP$', '*'), ('$u5b$', '['), ('$u5d$', ']'), ('$u27$', "'")):
        r = r.replace(a, b)
    return r

# ---------------------------------------------------------------------- harness intrinsics (hooked by name)
def _tag(s, p, n): return s.cstr(p, n).decode()

def h_f64(s, a):
    i = a[0]
    if s.concrete is not None:
        return bits_f64(s.concrete.get(('f', i), 0))
    v = s.symvars.get(('f', i))
    s.has_fp_inputs = True
    if v is None:
        v = z3.BitVec('f%d' % i, 64); s.symvars[('f', i)] = v
    return z3.fpBVToFP(v, F64)

def h_u64(s, a):
    i = a[0]
    if s.concrete is not None:
        return s.concrete.get(('u', i), 0)
    v = s.symvars.get(('u', i))
    if v is None:
        v = z3.BitVec('u%d' % i, 64); s.symvars[('u', i)] = v
    return v

def h_pick(s, a):
    """continue with one feasible value of a symbolic u64 (a witness from the solver), recorded as a choice so that
    re-executions of the same path pick the same value"""
    v = a[0]
    if not is_sym(v): return v
    bv = to_bv(v, 64)
    val = s.choice(lambda: [s.model_value(bv)])
    s.add_constraint(bv == z3.BitVecVal(val, 64))
    return val

def h_assume(s, a):
    c = a[0]
    if is_sym(c):
        cb = bool_of_i1(c)
        k = s.known.get(cb.get_id())
        if k is True: return None
        if k is False: raise EndPath('assume-false')
        r = s.check(cb)
        if r == 'unsat': raise EndPath('assume-false')
        if r == 'unknown': raise EndPath('undecided', 'solver unknown at assume')
        s.add_constraint(cb)
    elif not (c & 1): raise EndPath('assume-false')
    return None

def h_assert(s, a):
    c = a[0]; tag = _tag(s, a[1], a[2])
    st = s.asserts.setdefault(tag, [0, 0, 0])     # checked, violated, undecided
    s.nhook += 1
    hc = s.hookcache
    if hc is not None and is_sym(c):
        # replay mode: an assertion inside the replayed prefix was already decided when that prefix was first explored
        key = (tuple(s.trail), s.nhook)
        if key in hc:
            if hc[key]:
                cb = bool_of_i1(c); s.add_constraint(cb)
            return None
    st[0] += 1
    if is_sym(c):
        cb = bool_of_i1(c)
        k = s.known.get(cb.get_id())
        if k is True: return None
        if hc is not None: hc[(tuple(s.trail), s.nhook)] = False
        r = 'sat' if k is False else s.check(z3.Not(cb))
        if r == 'sat':
            if k is False: s.check()
            st[1] += 1
            s.violations.append({'tag': tag, 'inputs': s.model_inputs(s.last_model), 'path': s.path_id})
            # continue on the side where the assertion holds, if there is one
            r2 = s.check(cb)
            if r2 != 'sat': raise EndPath('assert-failed-always', tag)
            s.add_constraint(cb)
            if hc is not None: hc[(tuple(s.trail), s.nhook)] = True
        elif r == 'unknown':
            st[2] += 1
        else:
            s.known[cb.get_id()] = True
    elif not (c & 1):
        m = getattr(s, 'path_model', None)
        if m is None and s.symvars:
            if s.check() == 'sat': m = s.last_model
            else:
                st[2] += 1
                raise EndPath('undecided', 'assertion %s is false on this path but the solver produced no model for the path' % tag)
        st[1] += 1
        s.violations.append({'tag': tag, 'inputs': s.model_inputs(m) if m is not None else {}, 'path': s.path_id})
        raise EndPath('assert-failed-always', tag)
    return None

def h_cover(s, a):
    t = _tag(s, a[0], a[1])
    if t not in s.covers: s.covers.append(t)

def h_obs_u64(s, a):
    v = a[2]
    s.observations.append([_tag(s, a[0], a[1]), 'u64', v if not is_sym(v) else 'sym'])

def h_obs_f64(s, a):
    v = a[2]
    if is_sym(v): r = 'sym'
    elif v != v: r = 'nan'
    else: r = '0x%016x' % f64_bits(v)
    s.observations.append([_tag(s, a[0], a[1]), 'f64', r])

def h_obs_str(s, a):
    p, n = a[2], a[3]
    if is_sym(n) or is_sym(p) or s.has_sym_bytes(p, n): r = 'sym'
    else: r = s.cstr(p, n).hex()
    s.observations.append([_tag(s, a[0], a[1]), 'str', r])

def h_cfg(s, a):
    i, buf, cap = a
    cfg = s.case['cfg'] if s.case else {}
    v = cfg.get(i, cfg.get(str(i)))
    if v is None: return M64
    b = v.encode()
    n = min(len(b), cap)
    o = s.mem.find(buf); off = buf - o.base
    o.data[off:off + n] = b[:n]
    return len(b)

def h_checkpoint(s, a):
    ctl = s.ctl
    if ctl is None or ctl.cases is None or s.replay is not None: return None
    if getattr(s, 'checkpointed', False): return None
    s.checkpointed = True
    sys.stdout.flush(); sys.stderr.flush()
    setup = {'case': None, 'path': 'setup', 'status': 'setup', 'instr': s.ninstr, 'queries': s.queries, 'solver_s': s.solver_time,
             'fns': sorted(s.fnseen), 'wall_s': round(time.time() - s.t_start, 3), 'covers': [], 'asserts': {}, 'violations': [], 'obs': [], 'unknowns': 0, 'info': None, 'nbranch': 0}
    os.write(ctl.out_fd, (json.dumps(setup) + '\n').encode())
    for case in ctl.cases:
        pid = os.fork()
        if pid == 0:
            s.children = []
            s.case = case; s.path_id = '0'
            s.concrete = case.get('concrete')
            if s.concrete is not None:
                s.concrete = {(k[0], int(k[1:])): v for k, v in s.concrete.items()}
            s.reset_counters()
            s.budget_abs = s.ninstr + s.opts.instr_budget
            return None
        os.waitpid(pid, 0)
    os._exit(0)

HOOKS = {'@verif_pick': h_pick, '@verif_f64': h_f64, '@verif_u64': h_u64, '@verif_assume': h_assume, '@verif_assert': h_assert, '@verif_cover': h_cover,
         '@verif_observe_u64': h_obs_u64, '@verif_observe_f64': h_obs_f64, '@verif_observe_str': h_obs_str, '@verif_cfg': h_cfg,
         '@verif_checkpoint': h_checkpoint}

# ---------------------------------------------------------------------- run control / driver
class Ctl:
    pass

def explore(module_path, entry, cases, opts=None, out_path=None, sample_dir=None, sample_every=0):
    """Run harness `entry` (which must call verif_checkpoint) on every case; returns the list of path records.
    cases: [{'id': str, 'cfg': {int: str}, optional 'concrete': {'f0': bits, 'u1': int}}]
    The cases are dealt out to `opts.workers` independent worker processes (separately started interpreters, so
    that their copy-on-write forks do not contend in the kernel); inside a worker the path tree of each case is
    explored depth-first with one live process at a time."""
    import subprocess, tempfile
    opts = opts or Opts()
    nw = max(1, min(opts.workers, len(cases)))
    tmpd = tempfile.mkdtemp(prefix='llse_run_')
    procs = []
    for w in range(nw):
        mine = cases[w::nw]
        spec = {'module': module_path, 'entry': entry, 'cases': mine, 'opts': opts.__dict__, 'out': os.path.join(tmpd, 'out_%d.jsonl' % w),
                'sample_dir': sample_dir, 'sample_every': sample_every}
        sp = os.path.join(tmpd, 'spec_%d.json' % w)
        json.dump(spec, open(sp, 'w'))
        procs.append((subprocess.Popen([sys.executable, os.path.abspath(__file__), '--worker', sp], stdout=subprocess.DEVNULL, stderr=open(os.path.join(tmpd, 'err_%d.txt' % w), 'w')), spec, w))
    recs = []
    for p, spec, w in procs:
        p.wait()
        got = set()
        try:
            with open(spec['out']) as f:
                for line in f:
                    line = line.strip()
                    if not line: continue
                    try:
                        r = json.loads(line); recs.append(r); got.add(r.get('case'))
                    except Exception:
                        recs.append({'status': 'engine-error', 'info': {'msg': 'corrupt record'}, 'case': None})
        except OSError:
            pass
        if p.returncode != 0 or any(c['id'] not in got for c in spec['cases']):
            err = open(os.path.join(tmpd, 'err_%d.txt' % w)).read()[-1500:]
            recs.append({'status': 'engine-error', 'case': None, 'path': 'worker-%d' % w, 'info': {'msg': 'worker exited with %s; stderr: %s' % (p.returncode, err)},
                         'instr': 0, 'queries': 0, 'solver_s': 0, 'covers': [], 'asserts': {}, 'violations': [], 'obs': [], 'fns': [], 'unknowns': 0, 'nbranch': 0})
    import shutil
    shutil.rmtree(tmpd, ignore_errors=True)
    return recs

def worker_main(spec_path):
    import multiprocessing
    spec = json.load(open(spec_path))
    opts = Opts(**spec['opts'])
    mod = load_module(spec['module'])
    out_path = spec['out']
    open(out_path, 'w').close()
    ctl = Ctl()
    ctl.sem = None
    ctl.npaths = multiprocessing.Value('i', 0)
    ctl.max_paths_total = opts.max_paths * max(1, len(spec['cases']))
    ctl.cases = spec['cases']
    ctl.sample_dir = spec.get('sample_dir'); ctl.sample_every = spec.get('sample_every', 0)
    ctl.out_fd = os.open(out_path, os.O_WRONLY | os.O_APPEND)
    gc.collect(); gc.freeze(); gc.disable()
    if opts.mode == 'replay':
        run_replay(mod, opts, ctl, spec)
        os._exit(0)
    if opts.per_case_setup:
        # the set-up before verif_checkpoint depends on the case (e.g. a session prelude generated per case):
        # every case is a separate run of the entry with its configuration visible from the start
        for case in spec['cases']:
            pid = os.fork()
            if pid == 0:
                ex = Exec(mod, opts); ex.ctl = ctl
                ex.case = case; ex.checkpointed = True
                conc = case.get('concrete')
                if conc is not None: ex.concrete = {(k[0], int(k[1:])): v for k, v in conc.items()}
                ex.t_start = time.time(); ex.ninstr_base = 0
                ex.budget_abs = opts.instr_budget
                try:
                    run_guarded(ex, spec['entry'], lambda st, info: ex.finish(st, info))
                finally:
                    os._exit(0)
            os.waitpid(pid, 0)
        os._exit(0)
    ex = Exec(mod, opts); ex.ctl = ctl
    ex.t_start = time.time(); ex.ninstr_base = 0
    ex.budget_abs = 4_000_000_000
    try:
        run_guarded(ex, spec['entry'], lambda st, info: ex.finish(st, info))
    finally:
        os._exit(0)

def run_guarded(ex, entry, done):
    try:
        ex.call('@' + entry, [])
        done('ok', None)
    except EndPath as e:
        done(e.status, e.info)
    except Panic as e:
        done('panic', {'msg': str(e), 'stack': [demangle(f) for f in ex.callstack[-12:]], 'inputs': ex.panic_inputs()})
    except Unsupported as e:
        done('unsupported', {'msg': str(e), 'stack': [demangle(f) for f in ex.callstack[-8:]]})
    except SystemExit:
        raise
    except BaseException as e:
        done('engine-error', {'msg': '%s: %s' % (type(e).__name__, e), 'tb': traceback.format_exc()[-3000:], 'stack': [demangle(f) for f in ex.callstack[-8:]]})

def run_replay(mod, opts, ctl, spec):
    """Replay mode: no process forking. Every path of a case is a fresh execution of the harness entry from a
    copy of the initial machine state, guided through its recorded prefix of choices (no solver calls there)
    and exploring first-feasible alternatives afterwards. Cheap when the harness prefix is short."""
    base = Exec(mod, opts)
    for case in spec['cases']:
        pending = [[]]
        npaths = 0
        hookcache = {}
        t_case = time.time()
        while pending:
            dec = pending.pop()
            npaths += 1
            if npaths > opts.max_paths or (opts.case_wall_s and time.time() - t_case > opts.case_wall_s):
                rec = {'case': case['id'], 'path': 'budget', 'status': 'path-budget', 'info': 'more than %d paths (%d pending)' % (opts.max_paths, len(pending) + 1),
                       'instr': 0, 'queries': 0, 'solver_s': 0, 'unknowns': 0, 'covers': [], 'asserts': {}, 'violations': [], 'obs': [], 'fns': [], 'wall_s': 0, 'nbranch': 0}
                os.write(ctl.out_fd, (json.dumps(rec) + '\n').encode())
                break
            ex = Exec(mod, opts, base=base); ex.ctl = ctl
            ex.case = case; ex.replay = dec; ex.pending = pending; ex.hookcache = hookcache
            ex.path_id = '.'.join(str(d) for d in dec) or '0'
            conc = case.get('concrete')
            if conc is not None: ex.concrete = {(k[0], int(k[1:])): v for k, v in conc.items()}
            ex.t_start = time.time(); ex.ninstr_base = 0
            ex.budget_abs = opts.instr_budget
            run_guarded(ex, spec['entry'], lambda st, info: ex.record(st, info))

def _panic_inputs(s):
    try:
        if s.concrete is not None or not s.symvars: return {}
        if s.check() == 'sat': return s.model_inputs(s.last_model)
    except Exception:
        pass
    return {}
Exec.panic_inputs = _panic_inputs

if __name__ == '__main__':
    if len(sys.argv) >= 3 and sys.argv[1] == '--worker':
        worker_main(sys.argv[2])
        sys.exit(0)
    import argparse
    ap = argparse.ArgumentParser()
    ap.add_argument('module'); ap.add_argument('entry'); ap.add_argument('--cfg', action='append', default=[])
    ap.add_argument('--concrete', default=None)
    ar = ap.parse_args()
    t0 = time.time()
    case = {'id': 'cli', 'cfg': {i: c for i, c in enumerate(ar.cfg)}}
    if ar.concrete: case['concrete'] = json.loads(ar.concrete)
    recs = explore(ar.module, ar.entry, [case])
    for r in recs:
        r2 = dict(r); r2.pop('fns', None)
        print(json.dumps(r2)[:1500])
    print('wall %.1fs' % (time.time() - t0))
