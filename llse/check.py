#!/usr/bin/env python3
"""check.py <ID> [--tier quick|thorough] [--replay <file>]

Common driver of every LLSE-decided property: builds the harness crate against /repo's current
working tree (native binary + LTO-merged LLVM IR in one cargo invocation), dumps the native unit
catalog, asks the property module for its plan (harness entries x structural cases), explores every
case symbolically, replays every solver model natively before reporting it, applies the
known-findings file, writes /verif/evidence/<ID>.json and sets the exit status
(0 held / 1 VIOLATION / 2 machinery problem — nothing reported by a run that exits 2 is to be believed).
"""
import os, sys, json, time, subprocess, glob, hashlib, shutil, importlib, argparse, random, tempfile

HERE = os.path.dirname(os.path.abspath(__file__))
VERIF = os.path.dirname(HERE)
sys.path.insert(0, HERE)
CACHE = os.path.join(VERIF, '.cache')
TARGET = os.path.join(CACHE, 'target')
HARNESS = os.path.join(VERIF, 'harness')
NATIVE = os.path.join(TARGET, 'release', 'nbverif')

def log(*a):
    print(*a, file=sys.stderr, flush=True)

# ----------------------------------------------------------------------------- build
def build():
    """cargo build of the harness crate (path dependency on /repo/numbat with feature verif-hooks).
    cargo's own fingerprinting makes this a rebuild whenever a file under /repo/numbat changed."""
    os.makedirs(CACHE, exist_ok=True)
    lock = os.path.join(HARNESS, 'Cargo.lock')
    if not os.path.exists(lock):
        shutil.copy('/repo/Cargo.lock', lock)
    env = dict(os.environ, CARGO_NET_OFFLINE='true', CARGO_TARGET_DIR=TARGET)
    t0 = time.time()
    import fcntl
    lk = open(os.path.join(CACHE, 'build.lock'), 'w')
    fcntl.flock(lk, fcntl.LOCK_EX)
    try:
        cmd = ['cargo', 'rustc', '--release', '--offline', '--bin', 'nbverif', '--', '--emit=llvm-ir,link', '-C', 'no-vectorize-loops', '-C', 'no-vectorize-slp']
        p = subprocess.run(cmd, cwd=HARNESS, env=env, stdout=subprocess.PIPE, stderr=subprocess.STDOUT, text=True)
        if p.returncode != 0 and 'Cargo.lock' in p.stdout:
            shutil.copy('/repo/Cargo.lock', lock)
            p = subprocess.run(cmd, cwd=HARNESS, env=env, stdout=subprocess.PIPE, stderr=subprocess.STDOUT, text=True)
        if p.returncode != 0:
            log(p.stdout[-6000:])
            log('BUILD-FAILED: the harness crate does not build against /repo (exit 2)')
            sys.exit(2)
        lls = sorted(glob.glob(os.path.join(TARGET, 'release', 'deps', 'nbverif-*.ll')), key=os.path.getmtime)
        if not lls:
            log('BUILD-FAILED: no LLVM IR emitted'); sys.exit(2)
        ll = lls[-1]
        for old in lls[:-1]:
            try: os.remove(old)
            except OSError: pass
    finally:
        fcntl.flock(lk, fcntl.LOCK_UN)
    log('build: %.1fs, IR %s (%.1f MB)' % (time.time() - t0, os.path.basename(ll), os.path.getsize(ll) / 1e6))
    return ll, time.time() - t0

def catalog():
    p = subprocess.run([NATIVE, 'catalog'], stdout=subprocess.PIPE, stderr=subprocess.PIPE, text=True, timeout=600)
    if p.returncode != 0:
        log(p.stderr[-3000:]); log('CATALOG-FAILED (exit 2)'); sys.exit(2)
    units = []
    for line in p.stdout.splitlines():
        d = json.loads(line)
        if 'error' in d:
            log('catalog: ' + d['error']); continue
        if not d['roundtrip']:
            log('CATALOG-MISMATCH: unit %s does not survive serialise/parse (exit 2)' % d['name']); sys.exit(2)
        units.append(d)
    return units

# ----------------------------------------------------------------------------- replay
def write_replay(path, case, inputs):
    with open(path, 'w') as f:
        for k, v in sorted(case.get('cfg', {}).items(), key=lambda kv: int(kv[0])):
            f.write('cfg %d %s\n' % (int(k), v.replace('\\', '\\\\').replace('\n', '\\n')))
        for k, v in sorted(inputs.items()):
            if k[0] == 'f': f.write('f64 %d 0x%016x\n' % (int(k[1:]), v))
            else: f.write('u64 %d %d\n' % (int(k[1:]), v))
        f.write('# entry %s\n' % case.get('entry', ''))
        f.write('# case %s\n' % case.get('id', ''))

def run_native(entry, replay_path, timeout=60):
    """returns (lines, returncode, timed_out)"""
    env = dict(os.environ, VERIF_REPLAY=replay_path)
    try:
        p = subprocess.run([NATIVE, entry], env=env, stdout=subprocess.PIPE, stderr=subprocess.PIPE, text=True, timeout=timeout, errors='replace')
        return p.stdout.splitlines(), p.returncode, False, p.stderr[-2000:]
    except subprocess.TimeoutExpired as e:
        out = e.stdout.decode('utf-8', 'replace') if e.stdout else ''
        return out.splitlines(), None, True, ''

def native_summary(lines):
    fails = [l.split(' ', 1)[1] for l in lines if l.startswith('ASSERT-FAIL ')]
    oks = [l.split(' ', 1)[1] for l in lines if l.startswith('ASSERT-OK ')]
    covers = [l.split(' ', 1)[1] for l in lines if l.startswith('COVER ')]
    obs = [l.split(' ')[1:] for l in lines if l.startswith('OBS ')]
    return fails, oks, covers, obs, ('DONE' in lines)

# ----------------------------------------------------------------------------- known findings
def load_known(pid):
    p = os.path.join(VERIF, 'known_findings.json')
    if not os.path.exists(p): return []
    d = json.load(open(p))
    return [e for e in d.get('findings', []) if e.get('property') == pid and e.get('status') == 'known']

# ----------------------------------------------------------------------------- main
def main():
    ap = argparse.ArgumentParser()
    ap.add_argument('pid')
    ap.add_argument('--tier', default=os.environ.get('VERIF_TIER', 'quick'))
    ap.add_argument('--replay', default=None)
    ar = ap.parse_args()
    pid = ar.pid.upper()
    tier = ar.tier if ar.tier in ('quick', 'thorough') else 'quick'
    seed = int(os.environ.get('VERIF_SEED', '0') or 0)
    t_start = time.time()
    prop = importlib.import_module('props.' + pid.lower())

    ll, build_s = build()

    if ar.replay:
        meta = {}
        for line in open(ar.replay):
            if line.startswith('# '):
                k, _, v = line[2:].strip().partition(' ')
                meta[k] = v
        lines, rc, to, err = run_native(meta.get('entry', ''), ar.replay)
        print('\n'.join(lines))
        fails = native_summary(lines)[0]
        if to: print('REPLAY: timed out (hang)')
        elif rc not in (0,): print('REPLAY: native process ended with status %s\n%s' % (rc, err))
        print('REPLAY: %d failing assertion(s): %s' % (len(fails), ', '.join(sorted(set(fails)))))
        sys.exit(1 if (fails or to or rc != 0) else 0)

    import engine
    from ir import load_module
    units = catalog()
    rnd = random.Random(seed * 7919 + 13)
    plan = prop.plan(tier, rnd, units)        # list of jobs: {'entry', 'cases', 'opts' (dict), 'expect_covers': [...]}
    only = os.environ.get('VERIF_ONLY')        # development aid: restrict the plan to cases whose 'entry:id' matches; the evidence says so
    if only:
        import re as _re
        for job in plan: job['cases'] = [c for c in job['cases'] if _re.search(only, job['entry'] + ':' + c['id'])]
        plan = [j for j in plan if j['cases']]
        for j in plan: j['expect_covers'] = []
        log('VERIF_ONLY=%s: partial development run, not a check' % only)
    os.makedirs(os.path.join(VERIF, 'replays'), exist_ok=True)
    os.makedirs(os.path.join(VERIF, 'evidence'), exist_ok=True)
    sample_dir = tempfile.mkdtemp(prefix='llse_q_')

    all_recs = []; problems = []; violations = []; known_hits = {}
    known = load_known(pid)
    totals = dict(paths=0, instr=0, queries=0, solver_s=0.0, unsupported=0, undecided_paths=0, undecided_asserts=0, bound_exceeded=0,
                  panics=0, engine_errors=0, asserts_checked=0, replayed=0, replay_confirmed=0, cases=0, symbolic_paths=0)
    fns = set(); samples = []; covers_seen = set(); distinct_paths = set()
    selftest_n = 0

    for job in plan:
        entry = job['entry']; cases = job['cases']
        for c in cases: c['entry'] = entry
        opts = engine.Opts(**job.get('opts', {}))
        log('job %s: %d cases' % (entry, len(cases)))
        t0 = time.time()
        recs = engine.explore(ll, entry, cases, opts, sample_dir=sample_dir, sample_every=job.get('sample_every', 25))
        log('job %s: %d path records in %.1fs' % (entry, len(recs), time.time() - t0))
        casemap = {c['id']: c for c in cases}
        totals['cases'] += len(cases)
        seen_cases = set()
        for r in recs:
            all_recs.append(r)
            st = r['status']
            totals['instr'] += r.get('instr', 0); totals['queries'] += r.get('queries', 0); totals['solver_s'] += r.get('solver_s', 0)
            fns.update(r.get('fns', []))
            if st == 'setup': continue
            seen_cases.add(r.get('case'))
            totals['paths'] += 1
            if r.get('nbranch', 0) > 0 or r.get('queries', 0) > 0:
                totals['symbolic_paths'] += 1
                distinct_paths.add((entry, r.get('case'), r.get('path'), r.get('nbranch'), r.get('instr')))
            for t in r.get('covers', []): covers_seen.add(t)
            for tag, st3 in r.get('asserts', {}).items():
                totals['asserts_checked'] += st3[0]; totals['undecided_asserts'] += st3[2]
            if st == 'unsupported':
                totals['unsupported'] += 1
                problems.append(('unsupported', entry, r.get('case'), r.get('info')))
            elif st == 'undecided':
                totals['undecided_paths'] += 1
            elif st == 'bound-exceeded' or st == 'path-budget':
                totals['bound_exceeded'] += 1
                if st == 'path-budget' and job.get('bounded_exploration'):
                    totals['path_budget_hit'] = totals.get('path_budget_hit', 0) + 1
                elif job.get('bound_is_violation'):
                    violations.append({'entry': entry, 'case': r.get('case'), 'tag': 'bound-exceeded', 'inputs': (r.get('info') or {}).get('inputs', {}) if isinstance(r.get('info'), dict) else {}, 'rec': r})
                else:
                    problems.append(('bound', entry, r.get('case'), r.get('info')))
            elif st == 'panic':
                totals['panics'] += 1
                if job.get('panic_is_violation', True):
                    info = r.get('info') or {}
                    violations.append({'entry': entry, 'case': r.get('case'), 'tag': 'panic', 'inputs': info.get('inputs', {}), 'rec': r, 'panic': info})
                else:
                    problems.append(('panic', entry, r.get('case'), r.get('info')))
            elif st == 'engine-error':
                totals['engine_errors'] += 1
                problems.append(('engine-error', entry, r.get('case'), r.get('info')))
            for v in r.get('violations', []):
                violations.append({'entry': entry, 'case': r.get('case'), 'tag': v['tag'], 'inputs': v['inputs'], 'rec': r})
            if len(samples) < 12 and st in ('ok', 'assert-failed-always'):
                c = casemap.get(r.get('case'), {})
                samples.append({'entry': entry, 'case': r.get('case'), 'label': c.get('label'), 'path': r.get('path'), 'branches_on_symbolic_values': r.get('nbranch'),
                                'instructions': r.get('instr'), 'assertions': r.get('asserts'), 'status': st})
        missing = [c['id'] for c in cases if c['id'] not in seen_cases]
        if missing:
            problems.append(('engine-error', entry, missing[:5], 'no path record for %d case(s)' % len(missing)))
        # vacuity: every expected cover tag must have been reached on some feasible path
        for t in job.get('expect_covers', []):
            if t not in covers_seen:
                problems.append(('vacuous', entry, None, 'cover point %r never reached' % t))

    # ---- replay every distinct (entry, case, tag) model natively before reporting it
    reported = []; mismatches = []; kernel_only = []
    jobs_by_entry = {j['entry']: j for j in plan}
    seen = set()
    by_case = {}
    for job in plan:
        for c in job['cases']: by_case[(job['entry'], c['id'])] = c
    for v in violations:
        key = (v['entry'], v['case'], v['tag'])
        if key in seen: continue
        case = by_case.get((v['entry'], v['case']), {'id': v['case'], 'cfg': {}, 'entry': v['entry']})
        rp = os.path.join(VERIF, 'replays', '%s-%s.replay' % (pid, hashlib.sha1(repr((key, sorted(v['inputs'].items()))).encode()).hexdigest()[:12]))
        write_replay(rp, case, v['inputs'])
        lines, rc, to, err = run_native(v['entry'], rp, timeout=prop.__dict__.get('REPLAY_TIMEOUT', 30))
        totals['replayed'] += 1
        fails, oks, covers, obs, done = native_summary(lines)
        if v['tag'] == 'panic':
            confirmed = (rc is not None and rc != 0 and not done) and not to
        elif v['tag'] == 'bound-exceeded':
            confirmed = to
        else:
            confirmed = v['tag'] in fails
        job_of = jobs_by_entry.get(v['entry'], {})
        if confirmed and job_of.get('confirm_entry'):
            # the finding was made on a kernel (one function driven directly). It is reported only if the same
            # inputs, submitted as SOURCE TEXT through the public API (Context::interpret), misbehave as well.
            l2, rc2, to2, err2 = run_native(job_of['confirm_entry'], rp, timeout=prop.__dict__.get('REPLAY_TIMEOUT', 30))
            f2, _, _, _, done2 = native_summary(l2)
            public = to2 or (rc2 is not None and rc2 != 0 and not done2) or bool(f2)
            if not public:
                seen.add(key)
                totals['kernel_only'] = totals.get('kernel_only', 0) + 1
                kernel_only.append({'entry': v['entry'], 'case': v['case'], 'tag': v['tag'], 'inputs': v['inputs'], 'note': 'reproduces on the kernel, not reachable through Context::interpret (input rejected or handled before it reaches the kernel)'})
                continue
            v['public'] = {'entry': job_of['confirm_entry'], 'fails': sorted(set(f2)), 'rc': rc2, 'timeout': to2, 'stderr': (err2 or '')[-300:]}
        if confirmed:
            seen.add(key)
            totals['replay_confirmed'] += 1
            v['replay'] = rp
            v['native'] = {'fails': sorted(set(fails)), 'rc': rc, 'timeout': to, 'stderr': err[-400:] if err else ''}
            reported.append(v)
        else:
            mismatches.append((key, rp, fails, rc, to))
    # a model that never reproduces for its (entry, case, tag) means the encoding is wrong
    for key, rp, fails, rc, to in mismatches:
        if key not in seen:
            problems.append(('engine-mismatch', key[0], key[1], 'solver model for %r does not reproduce natively (replay %s: fails=%s rc=%s timeout=%s)' % (key[2], rp, fails, rc, to)))
            seen.add(key)

    # ---- differential self-test of the executor on this module (concrete inputs, LLSE vs native)
    st_ok, st_n, st_msgs = selftest(engine, ll, plan, rnd)
    selftest_n = st_n
    for m in st_msgs: problems.append(('selftest', None, None, m))

    # ---- second-solver cross-check of a sample of the discharged queries
    xc = crosscheck(sample_dir, limit=job_limit(tier))
    shutil.rmtree(sample_dir, ignore_errors=True)
    for m in xc['disagreements']: problems.append(('solver-disagreement', None, None, m))

    # ---- classify: known findings vs new violations
    new_viol = []; kf_lines = []
    for v in reported:
        k = prop.classify(v, by_case.get((v['entry'], v['case']), {})) if hasattr(prop, 'classify') else None
        hit = next((e for e in known if e.get('key') == k), None) if k else None
        if hit:
            known_hits.setdefault(hit['key'], []).append(v)
        else:
            new_viol.append(v)
    for e in known:
        hits = known_hits.get(e['key'], [])
        if hits:
            print('KNOWN-FINDING: property=%s %s [%s; %d witness(es) this run, e.g. replay=%s]' % (pid, e['what'], e['key'], len(hits), hits[0]['replay']))
    for v in new_viol:
        print('VIOLATION property=%s replay=%s' % (pid, v['replay']))
        log('  entry=%s case=%s assertion=%s inputs=%s' % (v['entry'], v['case'], v['tag'], v['inputs']))

    hard = [p for p in problems if p[0] in ('engine-error', 'engine-mismatch', 'vacuous', 'selftest', 'solver-disagreement')]
    soft = [p for p in problems if p[0] in ('unsupported', 'bound', 'panic')]
    undec = totals['undecided_paths'] + totals['undecided_asserts']
    limits = getattr(prop, 'LIMITS', {})
    too_soft = len(soft) > limits.get('max_unsupported', 0)
    too_undec = undec > limits.get('max_undecided_frac', 0.2) * max(1, totals['asserts_checked'] + totals['paths'])
    for p in (hard + soft)[:30]: log('PROBLEM %s' % (str(p)[:600],))

    wall = time.time() - t_start
    level = getattr(prop, 'LEVEL', 'model_checking')
    ev = {
        'property_id': pid, 'tier': tier, 'seed': seed, 'level': level, 'wall_s': round(wall, 1),
        'violations': len(new_viol),
        'coverage': {
            'evaluations': totals['queries'],
            'distinct_nontrivial': len(distinct_paths),
            'rule': 'evaluations = SMT queries discharged (branch feasibility + negated assertions). A case is one structural configuration '
                    '(units / template / length) chosen by the plan; within a case every feasible path of the compiled code is explored with all '
                    'inputs symbolic. distinct_nontrivial = distinct explored paths (entry, case, path id) that contain at least one solver-decided '
                    'branch or assertion over the symbolic inputs.',
            'samples': samples,
            'exhaustive': bool(getattr(prop, 'exhaustive', lambda t: False)(tier)) and not soft and not undec and not totals.get('path_budget_hit'),
            'structural_cases': totals['cases'], 'paths': totals['paths'], 'instructions_executed': totals['instr'],
            'queries_discharged': totals['queries'], 'solver_time_s': round(totals['solver_s'], 1),
            'assertions_checked': totals['asserts_checked'], 'undecided_queries': undec,
            'unsupported_paths': totals['unsupported'], 'bound_exceeded_paths': totals['bound_exceeded'], 'panic_paths': totals['panics'],
            'models_replayed_natively': totals['replayed'], 'models_confirmed_natively': totals['replay_confirmed'],
            'known_findings_hit': {k: len(v) for k, v in known_hits.items()},
            'kernel_only_findings': kernel_only[:10],
            'cover_points_reached': sorted(covers_seen),
            'selftest_concrete_runs_compared_with_native': selftest_n,
            'crosscheck': {k: xc[k] for k in ('queries_rechecked', 'agreed', 'solver')},
            'functions_encoded': sorted({engine.demangle(f) for f in fns if 'numbat' in f})[:400],
            'functions_encoded_total': len(fns),
            'bounds': prop.bounds(tier) if hasattr(prop, 'bounds') else {},
            'outside_claim': getattr(prop, 'OUTSIDE', []),
            'problems': [list(map(str, p)) for p in (hard + soft)[:20]],
            'build_s': round(build_s, 1),
        },
        'assumptions': getattr(prop, 'ASSUMPTIONS', []) + COMMON_ASSUMPTIONS,
    }
    if only: ev['partial_development_run'] = 'VERIF_ONLY=' + only
    with open(os.path.join(VERIF, 'evidence', pid + ('.partial' if only else '') + '.json'), 'w') as f:
        json.dump(ev, f, indent=1)
    log('%s %s: cases=%d paths=%d queries=%d solver=%.1fs violations(new)=%d known=%d problems(hard=%d soft=%d undecided=%d) wall=%.1fs' % (
        pid, tier, totals['cases'], totals['paths'], totals['queries'], totals['solver_s'], len(new_viol), sum(len(v) for v in known_hits.values()), len(hard), len(soft), undec, wall))
    if hard:
        log('MACHINERY-PROBLEM: this run is not a verdict (exit 2)')
        sys.exit(2)
    if new_viol:
        sys.exit(1)          # every reported violation was reproduced against the native build
    if too_soft or too_undec:
        log('MACHINERY-PROBLEM: too many unsupported / undecided paths for a "held" verdict (exit 2)')
        sys.exit(2)
    sys.exit(0)

COMMON_ASSUMPTIONS = [
    'LLSE (this repository, llse/engine.py) interprets the LLVM IR rustc emits for the harness crate + numbat + dependencies + std (opt-level 1, fat LTO, overflow-checks and debug-assertions on, panic=abort); its instruction semantics are trusted, guarded by the per-run differential self-test against the native binary and by native replay of every reported model',
    'heap shape, pointers, strings and hash maps are concrete; only the inputs named in the plan are symbolic',
    'libc model: malloc never fails, getrandom returns fixed bytes (one concrete hash-map iteration order), single thread',
    'floating point: z3 Float64 semantics, round-nearest-even, one NaN value (payloads not modelled); pow/powi/libm only with concrete arguments (evaluated by the native libm / compiler-rt algorithm)',
    'z3 (python bindings) decides every query; a sample is re-decided by a second solver binary',
]

def job_limit(tier):
    return 12 if tier == 'quick' else 60

def selftest(engine, mod, plan, rnd):
    """Run every planned entry with concrete inputs under LLSE and natively; the sequences of
    assertion outcomes, cover points and observations must be identical."""
    msgs = []; n = 0
    import struct
    interesting = [0.0, -0.0, 1.0, -1.0, 0.5, 3.0, 1e-320, 1e300, -2.5e-7, float('inf'), 12345.678, 2.0 ** 53, 0.1]
    for job in plan:
        entry = job['entry']; cases = job['cases']
        if not cases: continue
        picks = [cases[0]] + ([cases[len(cases) // 2]] if len(cases) > 2 else [])
        ccases = []
        for ci, c in enumerate(picks):
            for k in range(job.get('selftest_runs', 2)):
                conc = {}
                gen = job.get('selftest_inputs')
                if gen:
                    conc = gen(rnd, c)
                else:
                    for i in range(8):
                        conc['f%d' % i] = struct.unpack('<Q', struct.pack('<d', rnd.choice(interesting) if rnd.random() < 0.6 else rnd.uniform(-1e3, 1e3)))[0]
                        conc['u%d' % i] = rnd.randrange(0, 4)
                cc = dict(c); cc['id'] = 'selftest-%d-%d' % (ci, k); cc['concrete'] = conc; cc['entry'] = entry
                ccases.append(cc)
        recs = engine.explore(mod, entry, ccases, engine.Opts(**job.get('opts', {})))
        byid = {}
        for r in recs:
            if r['status'] != 'setup': byid.setdefault(r['case'], []).append(r)
        for cc in ccases:
            rs = byid.get(cc['id'], [])
            fd, rp = tempfile.mkstemp(prefix='llse_selftest_', suffix='.replay'); os.close(fd)
            write_replay(rp, cc, cc['concrete'])
            lines, rc, to, err = run_native(entry, rp)
            os.remove(rp)
            fails, oks, covers, obs, done = native_summary(lines)
            n += 1
            if len(rs) != 1:
                msgs.append('%s %s: concrete run produced %d path records' % (entry, cc['id'], len(rs))); continue
            r = rs[0]
            if r['status'] in ('unsupported',):
                continue
            if r['status'] == 'assume-false':
                if 'ASSUME-FALSE' not in lines: msgs.append('%s: LLSE assume-false but native continued (inputs %s)' % (entry, cc['concrete']))
                continue
            if r['status'] == 'panic':
                if rc == 0: msgs.append('%s: LLSE panics (%s) but native run succeeds (inputs %s)' % (entry, r.get('info'), cc['concrete']))
                continue
            if r['status'] not in ('ok', 'assert-failed-always'):
                msgs.append('%s %s: concrete run ended %s %s' % (entry, cc['id'], r['status'], str(r.get('info'))[:300])); continue
            l_fail = sorted(t for t, st3 in r['asserts'].items() if st3[1]); n_fail = sorted(set(fails))
            if r['status'] == 'ok' and (l_fail != n_fail):
                msgs.append('%s %s: assertion outcomes differ: LLSE fails %s, native fails %s (inputs %s)' % (entry, cc['id'], l_fail, n_fail, cc['concrete']))
            l_obs = [[o[0], o[1], str(o[2])] for o in r.get('obs', [])]; n_obs = [[o[0], o[1], o[2]] for o in obs]
            if r['status'] == 'ok' and l_obs != n_obs:
                msgs.append('%s %s: observations differ: LLSE %s native %s (inputs %s)' % (entry, cc['id'], l_obs[:6], n_obs[:6], cc['concrete']))
            if r['status'] == 'ok' and sorted(set(r.get('covers', []))) != sorted(set(covers)):
                msgs.append('%s %s: cover points differ: LLSE %s native %s' % (entry, cc['id'], r.get('covers'), covers))
    return (not msgs), n, msgs

def crosscheck(sample_dir, limit):
    """re-decide sampled queries with a second solver (/usr/bin/z3 4.8.12, a different build than the
    python bindings' 5.x); sat/unsat disagreement is a machinery problem, unknown/timeouts are ignored"""
    files = sorted(glob.glob(os.path.join(sample_dir, '*.smt2')))
    res = {'queries_rechecked': 0, 'agreed': 0, 'disagreements': [], 'solver': '/usr/bin/z3 (4.8.12)'}
    import concurrent.futures
    pick = files[:limit]
    def one(fn):
        exp = open(fn).readline().split(':')[1].strip()
        try:
            p = subprocess.run(['/usr/bin/z3', '-T:20', fn], stdout=subprocess.PIPE, stderr=subprocess.PIPE, text=True, timeout=30)
            out = p.stdout.strip().splitlines()
            got = out[0].strip() if out else 'unknown'
            if '(error' in p.stdout: got = 'unknown'
        except subprocess.TimeoutExpired:
            got = 'unknown'
        return fn, exp, got
    with concurrent.futures.ThreadPoolExecutor(8) as ex:
        for fn, exp, got in ex.map(one, pick):
            if got in ('sat', 'unsat'):
                res['queries_rechecked'] += 1
                if got == exp: res['agreed'] += 1
                else: res['disagreements'].append('%s: z3-py said %s, /usr/bin/z3 says %s' % (os.path.basename(fn), exp, got))
    return res

if __name__ == '__main__':
    main()
